#!/venv/bin/python
"""CLI of the runtime-monitoring harness.

  check.py <Cxx> [--tier quick|thorough] [--seed N] [--replay PATH]

exit 0 = held on everything explored (KNOWN-FINDING lines allowed),
exit 1 = violation (line `VIOLATION property=<id> replay=<path>`),
exit 2 = inconclusive (monitor not reached / watchdog), never folded into the others.
"""

from __future__ import annotations

import argparse
import importlib
import json
import os
import sys
from pathlib import Path

sys.path.insert(0, str(Path(__file__).resolve().parent))

from ismon import common  # noqa: E402


def main():
    ap = argparse.ArgumentParser()
    ap.add_argument("prop")
    ap.add_argument("--tier", default=os.environ.get("VERIF_TIER", "quick"), choices=["quick", "thorough"])
    ap.add_argument("--seed", type=int, default=int(os.environ.get("VERIF_SEED", "0")))
    ap.add_argument("--replay")
    args = ap.parse_args()
    prop = args.prop.upper()
    common.ensure_deps()
    if str(common.DEPS) not in sys.path:
        sys.path.append(str(common.DEPS))
    mod = importlib.import_module(f"ismon.props.{prop.lower()}")
    if args.replay:
        data = json.loads(Path(args.replay).read_text())
        sys.exit(mod.replay(data) if hasattr(mod, "replay") else _generic_replay(prop, data))
    sys.exit(mod.main(args.tier, args.seed))


def _generic_replay(prop, data):
    print(json.dumps(data, indent=1, ensure_ascii=False)[:6000])
    print(f"(no programmatic replay for {prop}: the witness above contains the files/flags to re-run)")
    return 0


if __name__ == "__main__":
    main()
