"""Runtime-monitoring harness for inline-snapshot (see /verif/DESIGN.md)."""
