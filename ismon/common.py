"""Shared plumbing: paths, child environment, sharding, verdicts, evidence.

Orchestrator side (check.py) and worker side (ismon.worker) both import this.
"""

from __future__ import annotations

import hashlib
import json
import os
import shutil
import subprocess
import sys
import tempfile
import time
from pathlib import Path

VERIF = Path(__file__).resolve().parent.parent
REPO = Path(os.environ.get("VERIF_REPO", "/repo"))
SRC = os.environ.get("VERIF_SRC", str(REPO / "src"))
PY = os.environ.get("VERIF_PY", "/venv/bin/python")
DEPS = VERIF / ".deps"
WHEELS = "/opt/veriftools/wheels"
GUARD = "INLINE_SNAPSHOT_VERIF"
NCPU = int(os.environ.get("VERIF_JOBS", str(os.cpu_count() or 4)))

CI_VARS = (
    "CI",
    "bamboo.buildKey",
    "BUILD_ID",
    "BUILD_NUMBER",
    "BUILDKITE",
    "CIRCLECI",
    "CONTINUOUS_INTEGRATION",
    "GITHUB_ACTIONS",
    "HUDSON_URL",
    "JENKINS_URL",
    "TEAMCITY_VERSION",
    "TRAVIS",
    "PYCHARM_HOSTED",
)


def ensure_deps():
    """icontract lives in the git-ignored /verif/.deps; (re)install it offline if missing."""
    if (DEPS / "icontract").exists():
        return
    DEPS.mkdir(exist_ok=True)
    subprocess.run(
        [
            PY,
            "-m",
            "pip",
            "install",
            "--quiet",
            "--no-index",
            "--no-deps",
            "--find-links",
            WHEELS,
            "--target",
            str(DEPS),
            "icontract",
        ],
        check=True,
        stdout=subprocess.DEVNULL,
        stderr=subprocess.DEVNULL,
    )


def child_env(extra=None, hashseed="0"):
    env = dict(os.environ)
    for v in CI_VARS + (
        "INLINE_SNAPSHOT_DEFAULT_FLAGS",
        "FORCE_COLOR",
        "NO_COLOR",
        "PYTEST_ADDOPTS",
        "PYTEST_CURRENT_TEST",
        "PYTEST_XDIST_WORKER",
        "PYTEST_XDIST_WORKER_COUNT",
    ):
        env.pop(v, None)
    env["PYTHONPATH"] = os.pathsep.join([SRC, str(VERIF)])
    env["PYTHONHASHSEED"] = str(hashseed)
    env["PYTHONDONTWRITEBYTECODE"] = "1"
    env[GUARD] = "1"
    env["TERM"] = "unknown"
    env["COLUMNS"] = "120"
    env["VERIF_SRC"] = SRC
    env["PIP_NO_INDEX"] = "1"
    if extra:
        env.update(extra)
    return env


def tmp_root() -> Path:
    base = os.environ.get("VERIF_TMP")
    if not base:
        base = "/dev/shm" if os.path.isdir("/dev/shm") and os.access("/dev/shm", os.W_OK) else tempfile.gettempdir()
    p = Path(base) / f"verif-{os.getpid()}"
    p.mkdir(parents=True, exist_ok=True)
    return p


def sha(b) -> str:
    if isinstance(b, str):
        b = b.encode("utf-8", "surrogatepass")
    return hashlib.sha256(b).hexdigest()


def jsonable(o, depth=0):
    if depth > 8:
        return repr(o)[:200]
    if isinstance(o, (str, int, float, bool)) or o is None:
        return o
    if isinstance(o, bytes):
        return o.decode("utf-8", "backslashreplace")
    if isinstance(o, dict):
        return {str(k): jsonable(v, depth + 1) for k, v in o.items()}
    if isinstance(o, (list, tuple, set, frozenset)):
        return [jsonable(v, depth + 1) for v in o]
    return repr(o)[:500]


# ---------------------------------------------------------------------------------------
# known findings


def load_known():
    p = VERIF / "known_findings.json"
    if not p.exists():
        return {}
    data = json.loads(p.read_text())
    return {e["id"]: e for e in data.get("findings", [])}


# ---------------------------------------------------------------------------------------
# orchestrator


class Outcome:
    def __init__(self, prop, tier, seed, level="exploration"):
        self.prop = prop
        self.tier = tier
        self.seed = seed
        self.level = level
        self.evaluations = 0
        self.signatures = set()
        self.samples = []
        self.counters = {}
        self.violations = []  # dicts {kind, detail, witness, finding}
        self.inconclusive = []
        self.extra = {}
        self.t0 = time.time()

    def merge(self, shard: dict):
        self.evaluations += shard.get("evaluations", 0)
        self.signatures.update(shard.get("signatures", []))
        for s in shard.get("samples", []):
            if len(self.samples) < 12:
                self.samples.append(s)
        for k, v in shard.get("counters", {}).items():
            if isinstance(v, (int, float)):
                self.counters[k] = self.counters.get(k, 0) + v
            elif isinstance(v, list):
                cur = self.counters.setdefault(k, [])
                for x in v:
                    if x not in cur:
                        cur.append(x)
            elif isinstance(v, dict):
                cur = self.counters.setdefault(k, {})
                for kk, vv in v.items():
                    cur[kk] = cur.get(kk, 0) + vv
        self.violations.extend(shard.get("violations", []))
        self.inconclusive.extend(shard.get("inconclusive", []))
        for k, v in shard.get("extra", {}).items():
            self.extra.setdefault(k, v)


def run_shards(prop, tier, seed, nshards=None, timeout=None, extra_args=(), env_extra=None):
    """Run ismon.worker for `prop` in nshards subprocesses; return list of shard dicts
    (missing/timeouts are reported as inconclusive entries)."""
    ensure_deps()
    nshards = nshards or NCPU
    root = tmp_root()
    outdir = root / f"{prop}-out"
    outdir.mkdir(exist_ok=True)
    procs = []
    for i in range(nshards):
        out = outdir / f"shard{i}.json"
        if out.exists():
            out.unlink()
        cmd = [
            PY,
            "-m",
            "ismon.worker",
            prop,
            "--shard",
            str(i),
            "--nshards",
            str(nshards),
            "--seed",
            str(seed),
            "--tier",
            tier,
            "--out",
            str(out),
            *extra_args,
        ]
        log = open(outdir / f"shard{i}.log", "wb")
        p = subprocess.Popen(
            cmd, cwd=str(VERIF), env=child_env(env_extra), stdout=log, stderr=subprocess.STDOUT
        )
        procs.append((i, p, out, log))
    deadline = time.time() + (timeout or (900 if tier == "quick" else 7200))
    shards = []
    for i, p, out, log in procs:
        try:
            p.wait(timeout=max(1, deadline - time.time()))
        except subprocess.TimeoutExpired:
            p.kill()
            p.wait()
            shards.append({"inconclusive": [f"shard {i} watchdog timeout"]})
            log.close()
            continue
        log.close()
        if out.exists():
            try:
                shards.append(json.loads(out.read_text()))
                continue
            except Exception as e:  # pragma: no cover
                shards.append({"inconclusive": [f"shard {i} unreadable output: {e}"]})
                continue
        tail = (outdir / f"shard{i}.log").read_text(errors="replace")[-1500:]
        shards.append({"inconclusive": [f"shard {i} exit={p.returncode} no output; log tail: {tail}"]})
    return shards


def finish(out: Outcome, rule: str, assumptions, min_evals=1, min_distinct=2, required_counters=()):
    """Classify, write evidence + replays, print verdict lines, return exit status."""
    known = load_known()
    real = []
    known_hits = {}
    for v in out.violations:
        fid = v.get("finding")
        entry = known.get(fid) if fid else None
        if entry is not None and entry.get("status") == "known" and out.prop in entry.get("properties", []):
            known_hits.setdefault(fid, []).append(v)
        else:
            real.append(v)

    replay_dir = VERIF / "replays" / out.prop
    lines = []
    for fid, vs in sorted(known_hits.items()):
        lines.append(f"KNOWN-FINDING: property={out.prop} {fid}: {known[fid]['what']} (hit {len(vs)}x this run)")
    if real:
        replay_dir.mkdir(parents=True, exist_ok=True)
    seen_kinds = {}
    for n, v in enumerate(real):
        k = v.get("kind", "violation")
        seen_kinds[k] = seen_kinds.get(k, 0) + 1
        if seen_kinds[k] > 5:
            continue  # do not flood; counted in evidence
        path = replay_dir / f"{out.tier}-seed{out.seed}-{n}.json"
        path.write_text(json.dumps(jsonable(v), indent=1, ensure_ascii=False))
        lines.append(f"VIOLATION property={out.prop} replay={path}")
        lines.append(f"  kind={k} detail={str(v.get('detail'))[:300]}")

    status = 0
    reasons = list(out.inconclusive)
    if out.evaluations < min_evals:
        reasons.append(f"only {out.evaluations} evaluations (< {min_evals})")
    if len(out.signatures) < min_distinct:
        reasons.append(f"only {len(out.signatures)} distinct non-trivial cases (< {min_distinct})")
    for c in required_counters:
        if not out.counters.get(c):
            reasons.append(f"deciding monitor counter {c!r} is zero (monitor never reached)")
    if real:
        status = 1
    elif reasons:
        status = 2
        for r in reasons[:5]:
            lines.append(f"INCONCLUSIVE property={out.prop} reason={str(r)[:400]}")

    coverage = {
        "evaluations": int(out.evaluations),
        "distinct_nontrivial": len(out.signatures),
        "rule": rule,
        "samples": jsonable(out.samples[:8]) or ["<none>"],
        "exhaustive": False,
        "events_observed": jsonable(out.counters),
        "known_findings_hit": {k: len(v) for k, v in known_hits.items()},
        "inconclusive_cases": jsonable(out.inconclusive[:10]),
        "verdict": {0: "held", 1: "violated", 2: "inconclusive"}[status],
        "violation_kinds": seen_kinds,
        "code_under_test": SRC,
    }
    coverage.update(jsonable(out.extra))
    ev = {
        "property_id": out.prop,
        "tier": out.tier,
        "seed": int(out.seed),
        "level": out.level,
        "coverage": coverage,
        "assumptions": list(assumptions),
        "wall_s": round(time.time() - out.t0, 2),
        "violations": len(real),
    }
    evdir = Path(os.environ.get("VERIF_EVIDENCE_DIR", str(VERIF / "evidence")))
    evdir.mkdir(exist_ok=True, parents=True)
    (evdir / f"{out.prop}.json").write_text(json.dumps(ev, indent=1, ensure_ascii=False) + "\n")

    for line in lines:
        print(line)
    print(
        f"{out.prop} [{out.tier} seed={out.seed}] verdict={coverage['verdict']} evaluations={out.evaluations} "
        f"distinct={len(out.signatures)} violations={len(real)} known={sum(len(v) for v in known_hits.values())} "
        f"wall={ev['wall_s']}s"
    )
    cleanup_tmp()
    return status


def cleanup_tmp():
    shutil.rmtree(tmp_root(), ignore_errors=True)
