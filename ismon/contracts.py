"""icontract post-conditions applied from the outside to the repository's pure functions.

The wrapped function replaces the original in its defining module *and* in every loaded
inline_snapshot module that imported it by name (references bound before decoration would
otherwise bypass the contract).  Conditions record and return True: they never abort the
execution they observe; failures are collected in Monitor.failures and evaluation counts
in Monitor.counts (zero evaluations => the check reports inconclusive)."""

from __future__ import annotations

import ast
import io
import sys
import tokenize

import icontract


class Monitor:
    def __init__(self):
        self.counts = {}
        self.failures = []

    def hit(self, name):
        self.counts[name] = self.counts.get(name, 0) + 1

    def fail(self, name, **info):
        if len(self.failures) < 200:
            self.failures.append({"contract": name, **{k: repr(v)[:400] for k, v in info.items()}})


def patch_everywhere(original, wrapped, name):
    n = 0
    for modname, mod in list(sys.modules.items()):
        if mod is None or not modname.startswith("inline_snapshot"):
            continue
        if getattr(mod, name, None) is original:
            setattr(mod, name, wrapped)
            n += 1
    return n


_installed = {}


def install_string_contracts() -> Monitor:
    if "string" in _installed:
        return _installed["string"]
    import inline_snapshot._inline_snapshot  # noqa: F401  (load all importers first)
    import inline_snapshot._snapshot.collection_value  # noqa: F401
    import inline_snapshot._snapshot.dict_value  # noqa: F401
    import inline_snapshot._snapshot.eq_value  # noqa: F401
    import inline_snapshot._snapshot.min_max_value  # noqa: F401
    from inline_snapshot import _utils

    mon = Monitor()

    def triple_quote_reads_back(string, result):
        mon.hit("triple_quote")
        try:
            ok = ast.literal_eval(result) == string
        except Exception as e:  # unparsable literal
            ok = False
            mon.fail("triple_quote", string=string, result=result, error=e)
            return True
        if not ok:
            mon.fail("triple_quote", string=string, result=result)
        return True

    def tokens_read_back(value, result):
        mon.hit("value_to_token")
        if isinstance(value, (str, bytes)):
            try:
                text = tokenize.untokenize(result)
                ok = ast.literal_eval(text) == value and type(ast.literal_eval(text)) is type(value)
            except Exception as e:
                mon.fail("value_to_token", value=value, error=e)
                return True
            if not ok:
                mon.fail("value_to_token", value=value, text=text)
        return True

    tq = icontract.ensure(triple_quote_reads_back, error=AssertionError)(_utils.triple_quote)
    patch_everywhere(_utils.triple_quote, tq, "triple_quote")
    vt = icontract.ensure(tokens_read_back, error=AssertionError)(_utils.value_to_token)
    patch_everywhere(_utils.value_to_token, vt, "value_to_token")
    _installed["string"] = mon
    return mon
