"""icontract post-conditions applied from the outside to the repository's pure functions.

The wrapped function replaces the original in its defining module *and* in every loaded
inline_snapshot module that imported it by name (references bound before decoration would
otherwise bypass the contract).  Conditions record and return True: they never abort the
execution they observe; failures are collected in Monitor.failures and evaluation counts
in Monitor.counts (zero evaluations => the check reports inconclusive)."""

from __future__ import annotations

import ast
import io
import sys
import tokenize

import icontract


class Monitor:
    def __init__(self):
        self.counts = {}
        self.failures = []

    def hit(self, name):
        self.counts[name] = self.counts.get(name, 0) + 1

    def fail(self, name, **info):
        if len(self.failures) < 200:
            self.failures.append({"contract": name, **{k: repr(v)[:400] for k, v in info.items()}})


def patch_everywhere(original, wrapped, name):
    n = 0
    for modname, mod in list(sys.modules.items()):
        if mod is None or not modname.startswith("inline_snapshot"):
            continue
        if getattr(mod, name, None) is original:
            setattr(mod, name, wrapped)
            n += 1
    return n


_installed = {}


def install_string_contracts() -> Monitor:
    if "string" in _installed:
        return _installed["string"]
    import inline_snapshot._inline_snapshot  # noqa: F401  (load all importers first)
    import inline_snapshot._snapshot.collection_value  # noqa: F401
    import inline_snapshot._snapshot.dict_value  # noqa: F401
    import inline_snapshot._snapshot.eq_value  # noqa: F401
    import inline_snapshot._snapshot.min_max_value  # noqa: F401
    from inline_snapshot import _utils

    mon = Monitor()

    def triple_quote_reads_back(string, result):
        mon.hit("triple_quote")
        try:
            ok = ast.literal_eval(result) == string
        except Exception as e:  # unparsable literal
            ok = False
            mon.fail("triple_quote", string=string, result=result, error=e)
            return True
        if not ok:
            mon.fail("triple_quote", string=string, result=result)
        return True

    def tokens_read_back(value, result):
        mon.hit("value_to_token")
        if isinstance(value, (str, bytes)):
            try:
                text = tokenize.untokenize(result)
                ok = ast.literal_eval(text) == value and type(ast.literal_eval(text)) is type(value)
            except Exception as e:
                mon.fail("value_to_token", value=value, error=e)
                return True
            if not ok:
                mon.fail("value_to_token", value=value, text=text)
        return True

    tq = icontract.ensure(triple_quote_reads_back, error=AssertionError)(_utils.triple_quote)
    patch_everywhere(_utils.triple_quote, tq, "triple_quote")
    vt = icontract.ensure(tokens_read_back, error=AssertionError)(_utils.value_to_token)
    patch_everywhere(_utils.value_to_token, vt, "value_to_token")
    _installed["string"] = mon
    return mon


def lcs_len(a, b):
    n, m = len(a), len(b)
    dp = [[0] * (m + 1) for _ in range(n + 1)]
    for i in range(n):
        for j in range(m):
            dp[i + 1][j + 1] = dp[i][j] + 1 if a[i] == b[j] else max(dp[i][j + 1], dp[i + 1][j])
    return dp[n][m]


def check_alignment(seq_a, seq_b, script):
    """None if `script` (over m/i/d) is a valid, match-maximal alignment of seq_a -> seq_b, else a reason."""
    ia = ib = matches = 0
    for c in script:
        if c == "m":
            if ia >= len(seq_a) or ib >= len(seq_b):
                return "m beyond the end"
            if not (seq_a[ia] == seq_b[ib]):
                return f"m pairs unequal elements at {ia}/{ib}"
            ia += 1
            ib += 1
            matches += 1
        elif c == "d":
            ia += 1
        elif c == "i":
            ib += 1
        else:
            return f"unknown op {c!r}"
    if ia != len(seq_a) or ib != len(seq_b):
        return f"script consumes {ia}/{ib} of {len(seq_a)}/{len(seq_b)}"
    best = lcs_len(seq_a, seq_b)
    if matches != best:
        return f"{matches} matches but the longest common subsequence has {best}"
    # common prefix / suffix must be matched
    p = 0
    while p < min(len(seq_a), len(seq_b)) and seq_a[p] == seq_b[p]:
        p += 1
    if not script.startswith("m" * p):
        return f"equal common prefix of length {p} is not matched verbatim"
    return None


def install_align_contracts() -> Monitor:
    if "align" in _installed:
        return _installed["align"]
    import inline_snapshot._adapter.sequence_adapter  # noqa: F401
    from inline_snapshot import _align

    mon = Monitor()

    def alignment_is_valid_and_maximal(seq_a, seq_b, result):
        mon.hit("align")
        try:
            why = check_alignment(list(seq_a), list(seq_b), result)
        except Exception as e:  # comparing elements may raise for exotic values
            mon.hit("align_uncheckable")
            return True
        if why:
            mon.fail("align", seq_a=seq_a, seq_b=seq_b, script=result, why=why)
        return True

    def add_x_only_merges_equal_runs(track, result):
        mon.hit("add_x")
        # expand x back: every x stands for one d + one i
        if track.count("m") != result.count("m"):
            mon.fail("add_x", track=track, result=result, why="m count changed")
        if track.count("d") != result.count("d") + result.count("x") or track.count("i") != result.count("i") + result.count("x"):
            mon.fail("add_x", track=track, result=result, why="d/i not conserved")
        # per segment between matches: deletions and insertions are conserved (x = one d + one i)
        tsegs, rsegs = track.split("m"), result.split("m")
        if len(tsegs) == len(rsegs):
            for t, r in zip(tsegs, rsegs):
                if t.count("d") != r.count("d") + r.count("x") or t.count("i") != r.count("i") + r.count("x"):
                    mon.fail("add_x", track=track, result=result, why="d/i not conserved between two matches")
                    break
        return True

    al = icontract.ensure(alignment_is_valid_and_maximal, error=AssertionError)(_align.align)
    patch_everywhere(_align.align, al, "align")
    ax = icontract.ensure(add_x_only_merges_equal_runs, error=AssertionError)(_align.add_x)
    patch_everywhere(_align.add_x, ax, "add_x")
    _installed["align"] = mon
    return mon
