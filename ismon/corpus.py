"""Regression corpus: snapshot sites distilled from the defects found on the pinned tree
(section 6 of DESIGN.md).  Every run of C02 (create+fix round trip) and C08 (idempotence)
includes one file built from these shapes, so that a revert of any of those repairs is
caught deterministically and not only when the random generators happen to hit the shape."""

# (previous text or None, observed value expression)
EQ_SITES = [
    # parenthesized elements / arguments next to an insertion or deletion
    ("NT2((3))", "NT2(x=4)"),
    ("NT2((3))", "NT2(x=3, y=1)"),
    ("DC((1), (2))", "DC(a=1, b=3)"),
    ("[((1)),]", "[1, 2]"),
    ("[(1), (2)]", "[2]"),
    ("{((1)): ((2))}", "{1: 2, 3: 4}"),
    ("(((1)),)", "(1, 2)"),
    ("{1: (1+2j)}", "{1: (1+2j), 2: 3}"),
    ("[('a' 'b')]", "['ab', 'c']"),
    ("DC(a=(1))", "DC(a=1, b=2)"),
    # complex numbers
    ("(1+2j)", "(1+2j)"),
    ("[(1+2j)]", "[(1+2j), (3-1j)]"),
    (None, "-1j"),
    (None, "complex(-0.0, -2.0)"),
    (None, "[complex(1, -0.0), -0j]"),
    (None, "frozenset({(-2-2j)})"),
    (None, "{'k%d' % i: frozenset({(-2-2j)}) for i in range(5)}"),
    # values handled as one piece whose tokens a formatter normalises
    (None, "{1e100}"),
    (None, "{'key %d' % i: frozenset({1e100, 1e-07, (i,)}) for i in range(6)}"),
    (None, "[{(1,)}, frozenset({(2,), (3, 4)})]"),
    (None, "{'k': [{'deep': [frozenset({(i,), 1e100}) for i in range(4)]}]}"),
    (None, "{frozenset({0}), frozenset({'a', 1.5}), frozenset({DC})}"),
    # strings
    (None, "' a '"),
    ("[1]", "[1, ' a ']"),
    ("{1: 2}", "{1: 2, ' k ': ' v '}"),
    (None, "'z\\'\\'\\'\\n\\\\#\"\"\"'"),
    (None, "'\"\"\"\\n\\'\\'\\'\\''"),
    # Flag without members, positional namedtuple / attrs arguments, keyword order
    (None, "Perm(0)"),
    (None, "AT(a=Perm(0))"),
    ("NT(1, 2)", "NT(a=1, b=3)"),
    ("AT(5)", "AT(a=6)"),
    ("DC(b=5, a=1)", "DC(a=1, c=[3])"),
    ("DC(c=[], b=5, a=1)", "DC(a=2, b=6)"),
    # nested snapshots
    ("[1, snapshot(2)]", "[7, 5, 2]"),
    ("[snapshot(43)]", "[379, 43]"),
    ("DC(a=1, b=snapshot(7))", "DC(a=1, b=7)"),
    ("DC(a=1, c=snapshot((15, 15)))", "DC(a=1, c=(15, 15))"),
    ("{'a': 1, **{}}", "{'a': 1}"),
]


def sites(base_id=900):
    out = []
    for n, (old, obs) in enumerate(EQ_SITES):
        out.append({"id": base_id + n, "op": "eq", "old": old, "obs": [obs], "place": "loop", "edits": ["corpus"], "sig": "corpus%d" % n})
    # sub-snapshot with create + trim on one dict, blank before the brace
    out.append({"id": base_id + len(EQ_SITES), "op": "getitem", "child": "eq", "old": "{'a': 1, 'unused': 2 }", "obs": [("'a'", "1"), ("'b'", "5")], "place": "loop", "edits": ["corpus"], "sig": "corpus-sub"})
    # `in` with fix + trim + update in one list
    out.append({"id": base_id + len(EQ_SITES) + 1, "op": "in", "old": "[3+2, 7]", "obs": ["5", "6"], "place": "loop", "edits": ["corpus"], "sig": "corpus-in"})
    return out
