"""Mechanism classifiers for known findings.  A violation is attributed to a known
mechanism only when a counterfactual re-execution *with exactly that mechanism
neutralised* makes the violation disappear; everything else stays a violation."""

from __future__ import annotations

import ast
import contextlib
import io
import tokenize


def _lone_string_literal(src: str) -> bool:
    """True iff src consists of exactly one string-literal token (implicit concatenation
    excluded) - the shape black treats as a module docstring."""
    try:
        toks = [t for t in tokenize.generate_tokens(io.StringIO(src).readline) if t.type not in (tokenize.NEWLINE, tokenize.NL, tokenize.ENDMARKER, tokenize.COMMENT, tokenize.INDENT, tokenize.DEDENT)]
    except (tokenize.TokenError, SyntaxError, IndentationError):
        return False
    if len(toks) != 1 or toks[0].type != tokenize.STRING:
        return False
    s = toks[0].string.lstrip("rRuU")
    return not s[:1] in ("b", "B", "f", "F") and not s[:2].lower() in ("rb", "br", "fr", "rf")


@contextlib.contextmanager
def no_docstring_treatment():
    """black.format_str wrapper: a lone str literal is formatted in assignment position
    (`_ = <literal>`) so that black's module-docstring normalisation cannot touch it."""
    import black

    real = black.format_str
    hits = [0]

    def patched(src, *, mode):
        if _lone_string_literal(src):
            hits[0] += 1
            import dataclasses

            wide = dataclasses.replace(mode, line_length=10**6)
            out = real("_ = " + src.strip(), mode=wide)
            assert out.startswith("_ = ")
            return out[4:]
        return real(src, mode=mode)

    black.format_str = patched
    try:
        yield hits
    finally:
        black.format_str = real


def black_alone_changes_value(literal_text: str) -> bool:
    """Counterfactual for a single literal: black on the literal alone changes its value
    while black on `_ = <literal>` preserves it."""
    import black

    try:
        want = ast.literal_eval(literal_text)
        alone = ast.literal_eval(black.format_str(literal_text, mode=black.FileMode()).strip())
        assigned = ast.literal_eval(black.format_str("_ = " + literal_text, mode=black.FileMode(line_length=10**6))[4:].strip())
    except Exception:
        return False
    return isinstance(want, str) and alone != want and assigned == want
