"""Seeded generators: value trees, canonical expressions, hostile-layout renderer,
edit scripts.  A value is carried as a *tree*; `expr(tree)` is a Python expression that
builds the value in a module that did `from vp import *`.  The harness never re-implements
inline-snapshot's code generation: oracles evaluate expressions with plain Python.

tree := (kind, payload)
  leaves : int bool none float complex str bytes enum flag cls weird ext
  nodes  : list tuple set frozenset (payload = tuple of trees)
           dict (payload = tuple of (key tree, value tree))
           dd   (payload = (factory name, dict tree))
           call (payload = (class name, tuple of (field, tree)))   dataclass/attrs/pydantic/namedtuple
"""

from __future__ import annotations

import random

from . import vp

NS = {k: getattr(vp, k) for k in dir(vp) if not k.startswith("_")}

ADV = [" ", "\n", "\r", "\t", "'", '"', "\\", "a", "é", "🐍", "\x00", "\x7f", " ", "{", "#", "b"]
ADV_MULTI = ["'''", '"""', "\\n", "\r\n", "  ", "x = 1", "#!"]

CALL_FIELDS = {
    # class -> (fields, defaults {field: expr})
    "DC": (("a", "b", "c"), {"b": "5", "c": "[]"}),
    "DC2": (("a", "b", "c"), {"b": "5", "c": "[]"}),
    "AT": (("a", "b", "c"), {"b": "7", "c": "[]"}),
    "PM": (("a", "b", "c"), {"b": "'x'", "c": "[]"}),
    "NT": (("a", "b", "c"), {"c": "3"}),
    "NT2": (("x", "y"), {"y": "0"}),
    "FDC": (("x", "y"), {"y": "None"}),
    "DI": (("w", "h"), {"h": "2"}),
    "AP": (("name", "token"), {"token": "'t'"}),
}
DEFAULT_TREES = {"2": ("int", 2), "'t'": ("str", "t"), "5": ("int", 5), "[]": ("list", ()), "7": ("int", 7), "'x'": ("str", "x"), "3": ("int", 3), "0": ("int", 0), "None": ("none", None)}
ENUMS = ["Color.RED", "Color.GREEN", "Color.BLUE"]
CLASSES = ["DC", "AT", "Color", "int", "str", "NT", "Weird", "list"]
DD_FACTORIES = ["list", "int", "None", "dict"]


def evaluate(tree):
    return eval(expr(tree), dict(NS))


# ---------------------------------------------------------------------------------------
# canonical expression


def expr(t) -> str:
    k, p = t
    if k in ("int", "bool", "none", "float", "str", "bytes"):
        return repr(p)
    if k == "complex":
        return repr(p)
    if k in ("enum", "cls"):
        return p
    if k == "flag":
        return " | ".join(f"Perm.{n}" for n in p) if p else "Perm(0)"
    if k == "weird":
        return f"WeirdBox({WEIRDBOX_ITEMS[p]})" if p in WEIRDBOX_ITEMS else f"Weird({p})"
    if k == "ext":
        data, suffix = p
        if suffix is None:
            return f"outsource({data!r})"
        return f"outsource({data!r}, suffix={suffix!r})"
    if k == "list":
        return "[" + ", ".join(map(expr, p)) + "]"
    if k == "tuple":
        if len(p) == 1:
            return "(" + expr(p[0]) + ",)"
        return "(" + ", ".join(map(expr, p)) + ")"
    if k == "set":
        return "{" + ", ".join(map(expr, p)) + "}" if p else "set()"
    if k == "frozenset":
        return "frozenset({" + ", ".join(map(expr, p)) + "})" if p else "frozenset()"
    if k == "dict":
        return "{" + ", ".join(f"{expr(a)}: {expr(b)}" for a, b in p) + "}"
    if k == "dd":
        fac, d = p
        return f"defaultdict({fac}, {expr(d)})"
    if k == "call":
        name, fields = p
        return f"{name}(" + ", ".join(f"{f}={expr(v)}" for f, v in fields) + ")"
    raise AssertionError(t)


def kind_sig(t, depth=0) -> str:
    """Shape signature (kinds only, bounded depth) for distinctness counting."""
    k, p = t
    if k in ("list", "tuple", "set", "frozenset"):
        if depth >= 2:
            return f"{k}{min(len(p),3)}"
        return f"{k}{min(len(p),3)}<" + ",".join(sorted({kind_sig(c, depth + 1) for c in p})) + ">"
    if k == "dict":
        if depth >= 2:
            return f"dict{min(len(p),3)}"
        return f"dict{min(len(p),3)}<" + ",".join(sorted({kind_sig(v, depth + 1) for _, v in p})) + ">"
    if k == "dd":
        return "dd"
    if k == "call":
        name, fields = p
        if depth >= 2:
            return name
        return name + "<" + ",".join(sorted({kind_sig(v, depth + 1) for _, v in fields})) + ">"
    if k == "str":
        cls = "ml" if "\n" in p else "sl"
        if p != p.strip() or not p:
            cls += "b"
        return "str:" + cls
    return k


# ---------------------------------------------------------------------------------------
# value generation


def gen_str(rng: random.Random, maxlen=8) -> str:
    r = rng.random()
    if r < 0.25:
        return "".join(rng.choice("abcxyz ") for _ in range(rng.randint(0, maxlen)))
    if r < 0.35:
        return ""
    n = rng.randint(1, maxlen)
    out = []
    for _ in range(n):
        if rng.random() < 0.1:
            out.append(rng.choice(ADV_MULTI))
        elif rng.random() < 0.05:
            out.append(chr(rng.choice([rng.randint(0, 0x7F), rng.randint(0x80, 0x2FFF), rng.randint(0x1F000, 0x1FAFF)])))
        else:
            out.append(rng.choice(ADV))
    return "".join(out)


def gen_bytes(rng, maxlen=6) -> bytes:
    if rng.random() < 0.3:
        return bytes(rng.choice(b"ab \n'\"\\\x00\xff") for _ in range(rng.randint(0, maxlen)))
    return bytes(rng.randint(0, 255) for _ in range(rng.randint(0, maxlen)))


def gen_int(rng):
    r = rng.random()
    if r < 0.6:
        return rng.randint(-5, 20)
    if r < 0.8:
        return rng.randint(-(10**6), 10**6)
    return rng.choice([2**63, -(2**63) - 1, 10**30, -(10**22), 0])


def gen_float(rng):
    return rng.choice([0.0, -0.0, 1.5, -2.25, 1e100, 5e-324, 3.14, 1e-7, 123456789.125, float(rng.randint(-50, 50)) / 8])


def gen_leaf(rng, hashable=False, allow=None):
    kinds = ["int", "int", "str", "str", "bool", "none", "float", "bytes", "enum", "flag", "complex", "cls"]
    if not hashable:
        kinds += ["weird", "ext"]
    if allow is not None:
        kinds = [k for k in kinds if k in allow] or ["int"]
    k = rng.choice(kinds)
    if k == "int":
        return ("int", gen_int(rng))
    if k == "str":
        return ("str", gen_str(rng))
    if k == "bool":
        return ("bool", rng.random() < 0.5)
    if k == "none":
        return ("none", None)
    if k == "float":
        return ("float", gen_float(rng))
    if k == "bytes":
        return ("bytes", gen_bytes(rng))
    if k == "enum":
        return ("enum", rng.choice(ENUMS))
    if k == "flag":
        names = [n for n in "RWX" if rng.random() < 0.5]
        return ("flag", tuple(names))
    if k == "complex":
        return ("complex", complex(rng.randint(-3, 3), rng.randint(-3, 3)))
    if k == "cls":
        return ("cls", rng.choice(CLASSES))
    if k == "weird":
        return ("weird", rng.choice([0, 1, 2, 3, 4, 5, 6, 7, 8, 9, 10, 11, 13]))
    if k == "ext":
        if rng.random() < 0.5:
            return ("ext", ("t" + gen_str(rng, 5), rng.choice([None, None, ".txt", ".log"])))
        return ("ext", (b"b" + gen_bytes(rng, 5), rng.choice([None, None, ".bin", ".png"])))
    raise AssertionError(k)


def _dedupe(trees):
    """Drop trees whose evaluated values collide under ==/hash (1, True, 1.0 ...)."""
    out, seen = [], []
    for t in trees:
        try:
            v = evaluate(t)
            hash(v)
        except Exception:
            continue
        if any(v == s for s in seen):
            continue
        seen.append(v)
        out.append(t)
    return out


def gen_value(rng, depth=3, hashable=False, allow=None, size=3):
    """Random tree.  hashable=True restricts to hashable values (dict keys / set members)."""
    if depth <= 0 or rng.random() < 0.35:
        return gen_leaf(rng, hashable, allow)
    kinds = ["tuple", "frozenset"] if hashable else ["list", "list", "tuple", "dict", "dict", "set", "frozenset", "call", "call", "dd"]
    if allow is not None:
        kinds = [k for k in kinds if k in allow]
        if not kinds:
            return gen_leaf(rng, hashable, allow)
    k = rng.choice(kinds)
    n = min(rng.randint(0, size), rng.randint(0, size + 1))
    sub = lambda h=hashable: gen_value(rng, depth - 1, h, allow, size)  # noqa
    if k in ("list", "tuple"):
        return (k, tuple(sub() for _ in range(n)))
    if k in ("set", "frozenset"):
        return (k, tuple(_dedupe([sub(True) for _ in range(n)])))
    if k == "dict":
        keys = _dedupe([sub(True) for _ in range(n)])
        return ("dict", tuple((kk, sub()) for kk in keys))
    if k == "dd":
        keys = _dedupe([gen_leaf(rng, True, ("int", "str")) for _ in range(n)])
        if rng.random() < 0.3:
            keys = []  # empty: may be written `defaultdict(list)`
        return ("dd", (rng.choice(DD_FACTORIES), ("dict", tuple((kk, sub(False)) for kk in keys))))
    if k == "call":
        name = rng.choice(list(CALL_FIELDS)) if not hashable else rng.choice(["NT", "NT2"])
        fields, defaults = CALL_FIELDS[name]
        vals = []
        for f in fields:
            if f in defaults and rng.random() < 0.4:
                continue  # left at its default
            h = hashable or name == "FDC"
            if f in defaults and rng.random() < 0.2:
                # the default value written out explicitly (the tool omits it: pending `update`)
                vals.append((f, DEFAULT_TREES[defaults[f]]))
                continue
            vals.append((f, sub(h)))
        return ("call", (name, tuple(vals)))
    raise AssertionError(k)


ORDER_GROUPS = ["int", "float", "str", "bytes", "inttuple", "intlist", "mixednum"]


# payloads >= 10 of the "weird" kind: vp.WeirdBox(item); its representation embeds the *code* representation of the item
WEIRDBOX_ITEMS = {10: "Color.RED", 11: "Color.BLUE", 13: "Perm.R | Perm.X"}


def weird_repr(n):
    """representation of vp.Weird(n) / vp.WeirdBox(item) as inline-snapshot records it"""
    if n in WEIRDBOX_ITEMS:
        return f"<WeirdBox {WEIRDBOX_ITEMS[n]}>"
    return [f"<Weird {n}>", f"Weird #{n}", f"weird={n}", f"Weird\n{n}"][n % 4]


def gen_ordered(rng, n, group=None):
    """n values from one totally ordered group (bounds are only specified for those)."""
    g = group or rng.choice(ORDER_GROUPS)
    out = []
    for _ in range(n):
        if g == "int":
            out.append(("int", gen_int(rng)))
        elif g == "float":
            out.append(("float", gen_float(rng)))
        elif g == "mixednum":
            out.append(("int", gen_int(rng)) if rng.random() < 0.5 else ("float", gen_float(rng)))
        elif g == "str":
            out.append(("str", gen_str(rng, 4)))
        elif g == "bytes":
            out.append(("bytes", gen_bytes(rng, 3)))
        elif g == "inttuple":
            out.append(("tuple", tuple(("int", rng.randint(0, 3)) for _ in range(rng.randint(0, 3)))))
        elif g == "intlist":
            out.append(("list", tuple(("int", rng.randint(0, 3)) for _ in range(rng.randint(0, 3)))))
    return g, out


def gen_poset(rng, n):
    """previous value + a chain of n observed values from a partial order (sets under inclusion):
    the observed values are pairwise comparable, so their extreme is well defined, but the previous
    value may be incomparable to them (a failing bound that is neither above nor below)."""
    kind = rng.choice(["set", "frozenset"])
    universe = list(range(rng.randint(3, 6)))
    rng.shuffle(universe)
    cuts = sorted(rng.randint(0, len(universe)) for _ in range(n))
    chain = [(kind, tuple(("int", i) for i in sorted(universe[:c]))) for c in cuts]
    rng.shuffle(chain)
    prev = (kind, tuple(("int", i) for i in sorted(rng.sample(range(7), rng.randint(0, 4)))))
    return "poset-" + kind, prev, chain


# ---------------------------------------------------------------------------------------
# hostile-layout renderer (old snapshot text)


def _ws(rng):
    return rng.choice(["", "", " ", "  ", "\t"])


def _str_variants(s: str, rng):
    r = repr(s)
    opts = [r]
    if "'" not in s and '"' not in s and "\\" not in r:
        opts.append('"' + r[1:-1] + '"' if r[0] == "'" else "'" + r[1:-1] + "'")
    if len(s) >= 2 and "\\" not in r:
        cut = rng.randint(1, len(s) - 1)
        opts.append(repr(s[:cut]) + " " + repr(s[cut:]))
    return rng.choice(opts)


def layout(t, rng: random.Random, handwritten=0.2, multiline=None, comments=True, depth=0) -> str:
    """Render tree as valid Python with arbitrary layout; evaluates == evaluate(tree).
    Only usable *inside parentheses* (may contain raw newlines)."""
    k, p = t
    if multiline is None:
        multiline = rng.random() < 0.3
    hw = rng.random() < handwritten
    sub = lambda c: layout(c, rng, handwritten, multiline and rng.random() < 0.7, comments, depth + 1)  # noqa

    def join(open_, items, close, force_trailing=False):
        if not items:
            return open_ + _ws(rng) + close
        if multiline:
            ind = "\n" + " " * rng.choice([0, 2, 4, 8]) * (depth + 1)
            parts = []
            for i, it in enumerate(items):
                c = ""
                if comments and rng.random() < 0.15:
                    c = "  # " + rng.choice(["c", "snapshot(1)", "é,]", "'", ")"])
                last = i == len(items) - 1
                comma = "," if (not last or force_trailing or rng.random() < 0.6) else ""
                parts.append(ind + it + _ws(rng) + comma + c)
            return open_ + "".join(parts) + "\n" + " " * rng.choice([0, 4]) + close
        sep = rng.choice([", ", ",", " , ", ",  "])
        tail = "," if force_trailing or rng.random() < 0.15 else ""
        return open_ + _ws(rng) + sep.join(items) + tail + _ws(rng) + close

    if k == "int":
        if hw and not isinstance(p, bool):
            return rng.choice([f"{p - 1}+1", f"int({str(p)!r})", f"({p})", f"{p}+0", f"-{-p}" if p > 0 else f"{p}", f"(\n{p}\n)", f"(  # c\n    {p})", f"({p}\n)"])
        return repr(p)
    if k == "str":
        if hw:
            return rng.choice([f"''.join([{p!r}])", f"({p!r})", f"str({p!r})", f"(\n{p!r}\n)"])
        return _str_variants(p, rng)
    if k == "bytes":
        if hw:
            return f"bytes({list(p)!r})"
        return repr(p)
    if k in ("bool", "none", "float", "complex", "enum", "cls", "flag", "weird", "ext"):
        e = expr(t)
        if k == "weird":
            e = f"HasRepr(WeirdBox, {weird_repr(p)!r})" if p in WEIRDBOX_ITEMS else f"HasRepr(Weird, {weird_repr(p)!r})"
        if k == "ext":
            raise AssertionError("externals have no hand-written old text")
        if hw and k in ("bool", "float", "enum"):
            return f"({e})"
        return e
    if k == "list":
        return join("[", [sub(c) for c in p], "]")
    if k == "tuple":
        return join("(", [sub(c) for c in p], ")", force_trailing=len(p) == 1)
    if k == "set":
        if not p:
            return "set()"
        return join("{", [sub(c) for c in p], "}")
    if k == "frozenset":
        if not p:
            return "frozenset()"
        return "frozenset(" + join("{", [sub(c) for c in p], "}") + ")"
    if k == "dict":
        return join("{", [sub(a) + _ws(rng) + ":" + _ws(rng) + sub(b) for a, b in p], "}")
    if k == "dd":
        fac, d = p
        if not d[1] and rng.random() < 0.5:
            return f"defaultdict({fac}{_ws(rng)})"  # the usual way to write an empty one
        return f"defaultdict({fac},{_ws(rng)}{sub(d)})"
    if k == "call":
        name, fields = p
        allf = CALL_FIELDS[name][0]
        npos = 0
        if rng.random() < 0.3:
            # positional prefix: only while the fields present are the leading ones, in order
            while name != "PM" and npos < len(fields) and fields[npos][0] == allf[npos]:
                npos += 1
            npos = rng.randint(0, npos)
        kw = list(fields[npos:])
        if len(kw) > 1 and rng.random() < 0.25:
            rng.shuffle(kw)  # keyword arguments in another order than the fields
        items = [sub(v) for f, v in fields[:npos]] + [f"{f}{rng.choice(['=', ' = '])}{sub(v)}" for f, v in kw]
        return join(name + _ws(rng).replace("\t", "") + "(", items, ")")
    raise AssertionError(t)


# ---------------------------------------------------------------------------------------
# edit scripts (new value from old)

EDIT_KINDS = ["replace_leaf", "insert", "delete", "reorder", "duplicate", "change_type", "nest", "field_edit", "key_move", "none"]


def mutate(t, rng: random.Random, hashable=False, depth=2):
    """One random structural edit somewhere in the tree; returns (new_tree, edit_kind)."""
    k, p = t
    fresh = lambda h=hashable: gen_value(rng, depth, h)  # noqa
    # descend with some probability
    if k in ("list", "tuple") and p and rng.random() < 0.4:
        i = rng.randrange(len(p))
        c, kind = mutate(p[i], rng, hashable, depth - 1)
        return (k, p[:i] + (c,) + p[i + 1 :]), "nested:" + kind
    if k == "dict" and p and rng.random() < 0.4:
        i = rng.randrange(len(p))
        c, kind = mutate(p[i][1], rng, False, depth - 1)
        return ("dict", p[:i] + ((p[i][0], c),) + p[i + 1 :]), "nested:" + kind
    if k == "call" and p[1] and rng.random() < 0.5:
        name, fields = p
        i = rng.randrange(len(fields))
        c, kind = mutate(fields[i][1], rng, hashable or name == "FDC", depth - 1)
        return ("call", (name, fields[:i] + ((fields[i][0], c),) + fields[i + 1 :])), "nested:" + kind

    if k in ("list", "tuple"):
        op = rng.choice(["insert", "insert", "delete", "reorder", "duplicate", "replace", "change_type", "clear"])
        p = list(p)
        if op == "insert" or not p:
            for _ in range(rng.randint(1, 2)):
                p.insert(rng.randint(0, len(p)), fresh())
            return (k, tuple(p)), "insert"
        if op == "delete":
            for _ in range(rng.randint(1, min(2, len(p)))):
                del p[rng.randrange(len(p))]
            return (k, tuple(p)), "delete"
        if op == "reorder":
            rng.shuffle(p)
            return (k, tuple(p)), "reorder"
        if op == "duplicate":
            p.insert(rng.randint(0, len(p)), rng.choice(p))
            return (k, tuple(p)), "duplicate"
        if op == "replace":
            p[rng.randrange(len(p))] = fresh()
            return (k, tuple(p)), "replace"
        if op == "clear":
            return (k, ()), "clear"
        if op == "change_type":
            return ("tuple" if k == "list" else "list", tuple(p)), "change_type"
    if k == "dict":
        op = rng.choice(["insert", "insert", "delete", "key_move", "replace", "change_type"])
        p = list(p)
        if op == "insert" or not p:
            keys = _dedupe([a for a, _ in p] + [gen_value(rng, 1, True) for _ in range(2)])[len(p) :]
            for kk in keys:
                p.insert(rng.randint(0, len(p)), (kk, fresh(False)))
            return ("dict", tuple(p)), "dict_insert"
        if op == "delete":
            del p[rng.randrange(len(p))]
            return ("dict", tuple(p)), "dict_delete"
        if op == "key_move":
            rng.shuffle(p)
            return ("dict", tuple(p)), "key_move"
        if op == "replace":
            i = rng.randrange(len(p))
            p[i] = (p[i][0], fresh(False))
            return ("dict", tuple(p)), "dict_replace"
        if op == "change_type":
            return ("list", tuple(b for _, b in p)), "change_type"
    if k in ("set", "frozenset"):
        p = list(p)
        if p and rng.random() < 0.5:
            del p[rng.randrange(len(p))]
            return (k, tuple(p)), "set_delete"
        p = _dedupe(p + [gen_value(rng, 1, True)])
        return (k, tuple(p)), "set_insert"
    if k == "call":
        name, fields = p
        allf, defaults = CALL_FIELDS[name]
        present = dict(fields)
        op = rng.choice(["to_default", "from_default", "replace", "change_class"])
        if op == "to_default":
            cands = [f for f in present if f in defaults]
            if cands:
                f = rng.choice(cands)
                del present[f]
                return ("call", (name, tuple((g, present[g]) for g in allf if g in present))), "field_to_default"
        if op == "from_default":
            cands = [f for f in allf if f not in present]
            if cands:
                f = rng.choice(cands)
                present[f] = fresh(hashable or name == "FDC")
                return ("call", (name, tuple((g, present[g]) for g in allf if g in present))), "field_from_default"
        if op == "change_class":
            other = rng.choice([n for n, (fs, df) in CALL_FIELDS.items() if fs == allf and set(df) == set(defaults) and n != name] or [name])
            if other != name:
                return ("call", (other, fields)), "change_class"
        f = rng.choice(list(present)) if present else None
        if f is None:
            return fresh(), "change_type"
        present[f] = fresh(hashable or name == "FDC")
        return ("call", (name, tuple((g, present[g]) for g in allf if g in present))), "field_edit"
    if k == "dd":
        fac, d = p
        nd, kind = mutate(d, rng, False, depth)
        if nd[0] != "dict":
            return fresh(), "change_type"
        return ("dd", (fac, nd)), "dd:" + kind
    # leaf
    r = rng.random()
    if r < 0.5:
        # near value of the same kind
        if k == "int":
            return ("int", p + rng.choice([-1, 1, 10])), "replace_leaf"
        if k == "str":
            if p and rng.random() < 0.5:
                i = rng.randrange(len(p))
                return ("str", p[:i] + p[i + 1 :]), "replace_leaf"
            i = rng.randint(0, len(p))
            return ("str", p[:i] + rng.choice(ADV) + p[i:]), "replace_leaf"
        if k == "bool":
            return ("bool", not p), "replace_leaf"
    if r < 0.8:
        return gen_leaf(rng, hashable), "replace_leaf"
    return fresh(), "nest"


def near(t, rng, hashable=False):
    """A value close to t but (usually) different."""
    for _ in range(5):
        n, kind = mutate(t, rng, hashable)
        try:
            if evaluate(n) != evaluate(t):
                return n
        except Exception:
            continue
    return ("str", "¬" + expr(t)[:5])
