"""In-process driver: the same steps as inline_snapshot.testing.Example.run_inline
(private state, exec the test modules, call test_* functions, collect changes, apply the
approved ones, fix_all) but exposing per-site data to the monitors.

One *run* = one fresh project directory (files written, cwd switched there because black
resolves pyproject.toml from the cwd), one snapshot_env.
"""

from __future__ import annotations

import ast
import itertools
import os
import shutil
import sys
import traceback
import warnings
from pathlib import Path

from . import common

_counter = itertools.count()
VP_TEXT = (Path(__file__).parent / "vp.py").read_text()

HEADER = "from inline_snapshot import snapshot\nfrom vp import *\n"
HEADER_FULL = "from inline_snapshot import snapshot, Is, HasRepr, external, outsource\nfrom vp import *\n"


class RunResult:
    def __init__(self):
        self.dir = None
        self.files_before = {}
        self.files_after = {}
        self.logs = {}  # filename -> LOG list
        self.test_exc = []  # (file, test, exc type, msg)
        self.sites = []  # per snapshot: dict(file, lineno, col, flags, n_changes)
        self.flags_reported = set()
        self.collect_exc = None  # exception while collecting changes
        self.apply_exc = None  # exception in apply_all/fix_all
        self.exec_exc = None
        self.missing = 0
        self.incorrect = 0
        self.problems = []
        self.warnings = []
        self.n_snapshots = 0
        self.globals = {}
        self.replacements = {}  # filename -> [(start,end,text)]

    def crashed(self):
        return self.collect_exc or self.apply_exc


def _reset_globals():
    from inline_snapshot import _config
    from inline_snapshot import _problems

    _config.config = _config.Config()
    _problems.all_problems = set()


def new_dir(tag="p") -> Path:
    d = common.tmp_root() / f"{tag}{next(_counter)}"
    if d.exists():
        shutil.rmtree(d)
    d.mkdir(parents=True)
    return d


def write_project(d: Path, files: dict, with_vp=True):
    for name, content in files.items():
        p = d / name
        p.parent.mkdir(parents=True, exist_ok=True)
        if isinstance(content, bytes):
            p.write_bytes(content)
        else:
            with open(p, "w", encoding="utf-8", newline="") as f:
                f.write(content)
    if with_vp and "vp.py" not in files:
        (d / "vp.py").write_text(VP_TEXT)


def read_project(d: Path, names):
    out = {}
    for n in names:
        p = d / n
        if p.exists():
            out[n] = p.read_bytes()
    return out


def _drop_caches():
    """executing / linecache keep every source file (text, AST, tokens) they have ever seen: a worker that
    runs tens of thousands of generated projects would grow by ~0.7 MB per run"""
    import linecache

    linecache.clearcache()
    try:
        from executing import Source

        for name, cache in list(vars(Source).items()):
            if name in ("__source_cache_with_lines", "__executing_cache") and hasattr(cache, "clear"):
                cache.clear()
            elif hasattr(cache, "cache_clear"):
                cache.cache_clear()  # unbounded lru_caches keyed by Source objects (statements_at_line, asttokens, ...)
        import executing.executing as ee

        for cache in list(vars(ee).values()):
            if hasattr(cache, "cache_clear"):
                cache.cache_clear()  # statement_containing_node: unbounded, keyed by AST nodes
    except Exception:  # pragma: no cover
        pass


def _purge_modules():
    """forget vp and every module imported from a scratch project directory"""
    root = str(common.tmp_root())
    for name, mod in list(sys.modules.items()):
        f = getattr(mod, "__file__", None)
        if name == "vp" or (f and f.startswith(root)):
            del sys.modules[name]


def _exec_file(path: Path, keep):
    text = path.read_bytes().decode("utf-8-sig")  # like the import system: BOM-aware, any newline style
    code = compile(text, str(path), "exec")
    keep.append(code)  # snapshot keys use id(code): never let a code object be freed during a run
    g = {"__name__": path.stem, "__file__": str(path)}
    exec(code, g)
    return g


def run(files: dict, flags=(), *, approve=None, call_tests=True, keep_dir=False, pre_hook=None, storage_dir=None, test_order=None) -> RunResult:
    """files: name -> text (test_*.py are executed in sorted order); flags: update_flags of
    the session; approve: categories whose changes are applied (default = flags)."""
    from inline_snapshot import _config
    from inline_snapshot._change import apply_all
    from inline_snapshot._external import DiscStorage
    from inline_snapshot._flags import Flags
    from inline_snapshot._global_state import snapshot_env
    from inline_snapshot._rewrite_code import ChangeRecorder

    res = RunResult()
    d = new_dir()
    res.dir = d
    write_project(d, files)
    names = sorted(n for n in files if n.endswith(".py") and Path(n).name.startswith("test_"))
    res.files_before = read_project(d, files)
    old_cwd = os.getcwd()
    old_path = list(sys.path)
    os.chdir(d)
    sys.path.insert(0, str(d))
    _purge_modules()
    _reset_globals()
    if (d / "pyproject.toml").exists():
        _config.read_config(d / "pyproject.toml", _config.config)
    keep = []
    approve = set(flags) if approve is None else set(approve)
    try:
        with warnings.catch_warnings(record=True) as wlist:
            warnings.simplefilter("always")
            with snapshot_env() as st:
                st.update_flags = Flags(set(flags))
                st.storage = DiscStorage(Path(storage_dir) if storage_dir else d / ".storage")
                if pre_hook:
                    pre_hook(st)
                try:
                    for n in names:
                        try:
                            g = _exec_file(d / n, keep)
                        except BaseException as e:
                            res.exec_exc = (n, type(e).__name__, str(e)[:300])
                            continue
                        res.globals[n] = g
                        if call_tests:
                            tests = [(k, v) for k, v in g.items() if k.startswith("test_") and callable(v)]
                            if test_order:
                                tests = test_order(tests)
                            for k, v in tests:
                                m0, i0 = st.missing_values, st.incorrect_values
                                try:
                                    v()
                                except BaseException as e:
                                    res.test_exc.append((n, k, type(e).__name__, str(e)[:300]))
                        res.logs[n] = list(g.get("LOG", []))
                finally:
                    st.active = False
                res.missing = st.missing_values
                res.incorrect = st.incorrect_values
                res.n_snapshots = len(st.snapshots)

                changes = []
                for key, snap in st.snapshots.items():
                    info = {"flags": [], "n": 0}
                    if snap._expr is not None:
                        node = snap._expr.node
                        info.update(file=os.path.basename(snap._expr.source.filename), lineno=node.lineno, col=node.col_offset, end_lineno=node.end_lineno, end_col=node.end_col_offset)
                    try:
                        cs = list(snap._changes())
                    except BaseException as e:
                        tb = traceback.extract_tb(e.__traceback__)
                        where = [f for f in tb if "inline_snapshot" in f.filename]
                        loc = f"{os.path.basename(where[-1].filename)}:{where[-1].name}" if where else "?"
                        res.collect_exc = (type(e).__name__, str(e)[:300], loc)
                        info["exc"] = type(e).__name__
                        res.sites.append(info)
                        continue
                    info["flags"] = sorted({c.flag for c in cs})
                    info["n"] = len(cs)
                    info["kinds"] = sorted({type(c).__name__ for c in cs})
                    res.sites.append(info)
                    changes += cs
                res.flags_reported = {c.flag for c in changes}

                if not res.collect_exc or True:
                    recorder = ChangeRecorder()
                    try:
                        apply_all([c for c in changes if c.flag in approve], recorder)
                        for f in recorder.files():
                            res.replacements[os.path.basename(str(f.filename))] = [
                                ((r.range.start.lineno, r.range.start.col_offset), (r.range.end.lineno, r.range.end.col_offset), r.text) for r in sorted(f.replacements)
                            ]
                        recorder.fix_all()
                    except BaseException as e:
                        tb = traceback.extract_tb(e.__traceback__)
                        where = [f for f in tb if "inline_snapshot" in f.filename]
                        loc = f"{os.path.basename(where[-1].filename)}:{where[-1].name}" if where else "?"
                        res.apply_exc = (type(e).__name__, str(e)[:300], loc)
            from inline_snapshot import _problems

            res.problems = sorted(_problems.all_problems)
            _problems.all_problems = set()
        res.warnings = [(w.category.__name__, str(w.message)[:200]) for w in wlist]
    finally:
        os.chdir(old_cwd)
        sys.path[:] = old_path
        _purge_modules()
    res.files_after = read_project(d, files)
    res._keep = keep
    _drop_caches()
    if not keep_dir:
        shutil.rmtree(d, ignore_errors=True)
    return res


def plain_run(files: dict, *, storage_from=None, call_tests=True):
    """Execute the (rewritten) modules with inline-snapshot inactive: the default global
    state has active=False, so snapshot(x) is x.  Returns (logs, test_exc, exec_exc, globals)."""
    from inline_snapshot._external import DiscStorage
    from inline_snapshot._global_state import state

    d = new_dir("r")
    write_project(d, files)
    names = sorted(n for n in files if n.endswith(".py") and Path(n).name.startswith("test_"))
    old_cwd = os.getcwd()
    old_path = list(sys.path)
    os.chdir(d)
    sys.path.insert(0, str(d))
    _purge_modules()
    st = state()
    assert not st.active
    old_storage = st.storage
    st.storage = DiscStorage(Path(storage_from) if storage_from else d / ".storage")
    logs, test_exc, exec_exc, globs = {}, [], None, {}
    keep = []
    try:
        for n in names:
            try:
                g = _exec_file(d / n, keep)
            except BaseException as e:
                exec_exc = (n, type(e).__name__, str(e)[:300])
                continue
            globs[n] = g
            if call_tests:
                for k, v in [(k, v) for k, v in g.items() if k.startswith("test_") and callable(v)]:
                    try:
                        v()
                    except BaseException as e:
                        test_exc.append((n, k, type(e).__name__, str(e)[:300]))
            logs[n] = list(g.get("LOG", []))
    finally:
        st.storage = old_storage
        os.chdir(old_cwd)
        sys.path[:] = old_path
        _purge_modules()
        shutil.rmtree(d, ignore_errors=True)
        _drop_caches()
    return logs, test_exc, exec_exc, globs


class Namespace:
    """One plain-Python namespace (header executed once, vp imported once) in which model
    inputs and rewritten snapshot arguments are evaluated *together*, so that class
    identities agree.  inline-snapshot is inactive; externals use a scratch storage."""

    def __init__(self, header=HEADER_FULL):
        from inline_snapshot._external import DiscStorage
        from inline_snapshot._global_state import state

        self.dir = new_dir("ns")
        write_project(self.dir, {})
        old_path = list(sys.path)
        sys.path.insert(0, str(self.dir))
        _purge_modules()
        self.g = {"__name__": "ns"}
        self.storage = DiscStorage(self.dir / ".storage")
        try:
            exec(header, self.g)
        finally:
            sys.path[:] = old_path
            _purge_modules()
        self._state = state

    def eval(self, text):
        st = self._state()
        assert not st.active
        old = st.storage
        st.storage = self.storage
        try:
            return eval(text, self.g)
        finally:
            st.storage = old

    def close(self):
        shutil.rmtree(self.dir, ignore_errors=True)


# ---------------------------------------------------------------------------------------
# locating snapshot calls in source text (independent of asttokens)


def snapshot_calls(source: str):
    """All `snapshot(...)` Call nodes of a module, outermost first, in source order."""
    tree = ast.parse(source)
    out = []
    for node in ast.walk(tree):
        if isinstance(node, ast.Call) and isinstance(node.func, ast.Name) and node.func.id == "snapshot":
            out.append(node)
    out.sort(key=lambda n: (n.lineno, n.col_offset))
    return tree, out


def site_args(source: str):
    """Map site id -> source segment of the snapshot argument for programs written in the
    `rec(<site>, lambda: ... snapshot(ARG) ...)` style (first snapshot call inside rec)."""
    tree = ast.parse(source)
    out = {}
    for node in ast.walk(tree):
        if isinstance(node, ast.Call) and isinstance(node.func, ast.Name) and node.func.id in ("rec", "S") and node.args and isinstance(node.args[0], ast.Constant):
            site = node.args[0].value
            for sub in ast.walk(node):
                if isinstance(sub, ast.Call) and isinstance(sub.func, ast.Name) and sub.func.id == "snapshot":
                    if site in out:
                        break
                    out[site] = ast.get_source_segment(source, sub.args[0]) if sub.args else None
                    break
    return out
