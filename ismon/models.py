"""Reference models written from the documentation only (docs/categories.md, the
operation pages, docs/pytest.md, docs/configuration.md).  No code shared with the
repository."""

from __future__ import annotations

MISSING = object()


# ---------------------------------------------------------------------------------------
# category algebra (C05)


def distinct(values):
    out = []
    for v in values:
        if not any(v == w for w in out):
            out.append(v)
    return out


class SiteModel:
    """op in eq/le/ge/in/getitem;  p = previous value or MISSING;
    obs = list of observed values (for getitem: list of (key, value), with child op)."""

    def __init__(self, op, p, obs, child="eq"):
        self.op = "eq" if op == "req" else op
        self.p = p
        self.obs = obs
        self.child = child

    # -- children of a sub-snapshot site
    def _children(self):
        keys = distinct([k for k, _ in self.obs])
        out = []
        for k in keys:
            # an access without comparison (vp.ACCESS_ONLY) makes the key "accessed" and observes nothing
            xs = [x for kk, x in self.obs if kk == k and type(x).__name__ != "_AccessOnly"]
            prev = MISSING
            if self.p is not MISSING and k in self.p:
                prev = self.p[k]
            out.append((k, SiteModel(self.child, prev, xs)))
        return out

    def pending(self):
        """categories among create/fix/trim the documentation says are pending"""
        op, p, obs = self.op, self.p, self.obs
        if not obs:
            return set()
        if p is MISSING:
            return {"create"}
        if op == "eq":
            return {"fix"} if any(not (p == x) for x in obs) else set()
        if op in ("le", "ge"):
            ext = max(obs) if op == "le" else min(obs)
            holds = all((x <= p) if op == "le" else (x >= p) for x in obs)
            if not holds:
                return {"fix"}
            if not (p == ext):
                return {"trim"}
            return set()
        if op == "in":
            out = set()
            if any(x not in p for x in obs):
                out.add("fix")
            if any(m not in obs for m in p):
                out.add("trim")
            return out
        if op == "getitem":
            out = set()
            accessed = [k for k, _ in self._children()]
            for k, ch in self._children():
                if k in p:
                    out |= ch.pending()
                elif ch.obs:  # a key that was only accessed has no value that could be created
                    out.add("create")
            if any(k not in accessed for k in p):
                out.add("trim")
            return out
        raise AssertionError(op)

    def some_comparison_fails(self):
        """does some observed comparison against the current value fail (fix <=> this)"""
        op, p, obs = self.op, self.p, self.obs
        if p is MISSING:
            return False
        if op == "eq":
            return any(not (p == x) for x in obs)
        if op == "le":
            return any(not (x <= p) for x in obs)
        if op == "ge":
            return any(not (x >= p) for x in obs)
        if op == "in":
            return any(x not in p for x in obs)
        if op == "getitem":
            return any(ch.some_comparison_fails() for k, ch in self._children() if k in p)
        raise AssertionError(op)

    def after(self, F):
        """value the argument evaluates to after a run approving F (MISSING = still empty)"""
        op, p, obs = self.op, self.p, self.obs
        F = set(F)
        if not obs:
            return p
        if p is MISSING:
            if "create" not in F:
                return MISSING
            if op == "eq":
                return obs[0]
            if op == "le":
                return max(obs)
            if op == "ge":
                return min(obs)
            if op == "in":
                return distinct(obs)
            if op == "getitem":
                return {k: ch.after(F) for k, ch in self._children() if ch.obs}
        if op == "eq":
            if "fix" in F and any(not (p == x) for x in obs):
                return obs[0]
            return p
        if op in ("le", "ge"):
            pend = self.pending()
            ext = max(obs) if op == "le" else min(obs)
            if pend & F:
                return ext
            return p
        if op == "in":
            cur = list(p)
            if "trim" in F:
                cur = [m for m in cur if m in obs]
            if "fix" in F:
                for x in distinct(obs):
                    if x not in p:
                        cur.append(x)
            return cur
        if op == "getitem":
            out = {}
            children = dict_like(self._children())
            for k in p:
                ch = lookup(children, k)
                if ch is None:
                    if "trim" not in F:
                        out[k] = p[k]
                else:
                    out[k] = ch.after(F)
            if "create" in F:
                for k, ch in self._children():
                    if k not in p and ch.obs:
                        out[k] = ch.after({"create"})
            return out
        raise AssertionError(op)


def dict_like(pairs):
    return list(pairs)


def lookup(pairs, key):
    for k, v in pairs:
        if k == key:
            return v
    return None


def same_value(op, a, b):
    """Python == ; `in` lists are compared as collections without order."""
    if a is MISSING or b is MISSING:
        return a is b
    if op == "in":
        if not isinstance(a, list) or not isinstance(b, list) or len(a) != len(b):
            return False
        rest = list(b)
        for x in a:
            for i, y in enumerate(rest):
                if x == y:
                    del rest[i]
                    break
            else:
                return False
        return True
    try:
        return bool(a == b) and (not isinstance(a, dict) or list(a.keys()) == list(b.keys()) or True)
    except Exception:
        return False
