"""Oracles shared by several properties."""

from __future__ import annotations

import shutil

from . import inproc
from . import program


def roundtrip(files, flags, style="rec", name="test_a.py", expect_fail_sites=(), pre_run=None, keep_res=False):
    """One in-process session approving `flags`, then plain re-execution of the rewritten
    module with inline-snapshot inactive (both share one external storage directory, the
    `-new` files referenced by the new code are persisted like the plugin does).

    Returns (status, detail, res): status in ok / crashed / skip / violation.
    In recording style every logged comparison must be True except for sites listed in
    expect_fail_sites; in asserting style no test may raise.
    """
    store = inproc.new_dir("store")
    try:
        if pre_run:
            pre_run()
        res = inproc.run(files, flags, storage_dir=store)
        if res.exec_exc:
            return "skip", {"exec_exc": res.exec_exc}, res
        if res.crashed():
            return "crashed", {"collect": res.collect_exc, "apply": res.apply_exc}, res
        new = res.files_after[name].decode("utf-8", "replace")
        try:
            args, _ = program.outer_snapshot_args(new)
        except SyntaxError as e:
            return "violation", {"kind": "unparsable", "error": str(e), "new": new}, res
        old_args, _ = program.outer_snapshot_args(files[name])
        if len(args) != len(old_args):
            return "violation", {"kind": "site-count-changed", "new": new}, res
        if style == "rec":
            ev0 = res.logs.get(name, [])
            if not ev0:
                return "skip", {"exec_exc": "no comparison events in the first run"}, res
        for f in list(store.glob("*-new.*")):
            f.rename(f.with_name(f.name.replace("-new.", ".")))
        logs, test_exc, exec_exc, _ = inproc.plain_run({name: new}, storage_from=store)
        if exec_exc:
            return "violation", {"kind": "rewritten-module-fails", "error": exec_exc, "new": new}, res
        if style == "rec":
            ev = logs.get(name, [])
            bad = [e for e in ev if not (e[1] == "ok" and e[3] is True) and e[0] not in expect_fail_sites]
            if bad:
                return "violation", {"kind": "comparison-not-true-after-run", "events": bad[:6], "new": new}, res
            if len(ev) != len(ev0):
                return "violation", {"kind": "different-number-of-comparisons-on-reexecution", "first": len(ev0), "second": len(ev), "new": new}, res
            return "ok", {"new": new, "events": len(ev)}, res
        if test_exc:
            return "violation", {"kind": "test-fails-after-run", "errors": test_exc[:4], "new": new}, res
        return "ok", {"new": new, "events": len(args)}, res
    finally:
        shutil.rmtree(store, ignore_errors=True)
