"""Test-program builder shared by the in-process properties.

A *site* is one textual snapshot() call:
  id        int (unique per file)
  op        'eq' | 'req' | 'le' | 'ge' | 'in' | 'getitem'
  old       source text of the argument, or None for snapshot()
  obs       list of expression strings (values compared, in evaluation order);
            for getitem: list of (key expr, value expr)
  child     for getitem: op applied to the sub-snapshot ('eq','le','ge','in')
  place     'loop' | 'helper' | 'module' | 'assert' | 'comp'
Two body styles: recording (rec(site, lambda: ...), never aborts) and asserting.
"""

from __future__ import annotations

import ast

from .inproc import HEADER_FULL

OPS = ("eq", "req", "le", "ge", "in", "getitem")


def cmp_text(op, x, s, child="eq", k="k"):
    if op == "eq":
        return f"{x} == {s}"
    if op == "req":
        return f"{s} == {x}"
    if op == "le":
        return f"{x} <= {s}"
    if op == "ge":
        return f"{x} >= {s}"
    if op == "in":
        return f"{x} in {s}"
    if op == "getitem":
        # ACCESS_ONLY (vp): the key is accessed, the sub-snapshot is not compared
        return f"(lambda sub: ({cmp_text(child, x, 'sub')}) if {x} is not ACCESS_ONLY else True)({s}[{k}])"
    raise AssertionError(op)


def build(sites, style="rec", tests=1, header=HEADER_FULL, per_test=None):
    """Returns (source, order) where order lists site ids in textual order of their
    snapshot() calls."""
    lines = [header.rstrip("\n"), ""]
    lines.append("O = {")
    for s in sites:
        if s["op"] == "getitem":
            items = ", ".join(f"({k}, {v})" for k, v in s["obs"])
        else:
            items = ", ".join(s["obs"])
        lines.append(f"    {s['id']}: [{items}],")
    lines.append("}")
    lines.append("")
    order = []
    # module-level snapshots and helper functions
    for s in sites:
        snap = "snapshot()" if s["old"] is None else f"snapshot({s['old']})"
        if s["place"] == "module":
            lines.append(f"S{s['id']} = {snap}")
            order.append(s["id"])
        if s["place"] == "helper":
            body = cmp_text(s["op"], "x", "s", s.get("child", "eq"))
            sig = "x, s, k=None"
            if style == "rec":
                lines.append(f"def check_{s['id']}({sig}):\n    rec({s['id']}, lambda: {body})")
            else:
                lines.append(f"def check_{s['id']}({sig}):\n    assert {body}")
    lines.append("")
    per_test = per_test or max(1, (len(sites) + tests - 1) // tests)
    for t in range(0, max(1, len(sites)), per_test):
        lines.append(f"def test_{t // per_test}():")
        chunk = sites[t : t + per_test]
        if not chunk:
            lines.append("    pass")
        for s in chunk:
            i = s["id"]
            snap = "snapshot()" if s["old"] is None else f"snapshot({s['old']})"
            place = s["place"]
            getitem = s["op"] == "getitem"
            loop = f"    for k, x in O[{i}]:" if getitem else f"    for x in O[{i}]:"
            if place == "module":
                target = f"S{i}"
            else:
                target = snap
            body = cmp_text(s["op"], "x", target, s.get("child", "eq"))
            if place == "helper":
                lines.append(loop)
                lines.append(f"        check_{i}(x, {snap}, k)" if getitem else f"        check_{i}(x, {snap})")
                order.append(i)
            elif place == "assert" and style != "rec":
                # single evaluation, plain assert (first observation only)
                if getitem:
                    lines.append(f"    k, x = O[{i}][0]")
                else:
                    lines.append(f"    x = O[{i}][0]")
                lines.append(f"    assert {body}")
                order.append(i)
            elif place == "comp" and not getitem:
                if style == "rec":
                    lines.append(f"    [rec({i}, lambda: {body}) for x in O[{i}]]")
                else:
                    lines.append(f"    assert all([{body} for x in O[{i}]])")
                order.append(i)
            else:
                lines.append(loop)
                if style == "rec":
                    lines.append(f"        rec({i}, lambda: {body})")
                else:
                    lines.append(f"        assert {body}")
                if place != "module":
                    order.append(i)
        lines.append("")
    return "\n".join(lines) + "\n", order


def o_dict_text(sites):
    parts = []
    for s in sites:
        if s["op"] == "getitem":
            items = ", ".join(f"({k}, {v})" for k, v in s["obs"])
        else:
            items = ", ".join(s["obs"])
        parts.append(f"{s['id']}: [{items}]")
    return "{" + ", ".join(parts) + "}"


def outer_snapshot_args(source: str):
    """Source segments of the arguments of all outermost snapshot() calls in textual order
    (None for an argument-less call).  Raises SyntaxError if the module does not parse."""
    tree = ast.parse(source)
    calls = []

    class V(ast.NodeVisitor):
        def visit_Call(self, node):
            if isinstance(node.func, ast.Name) and node.func.id == "snapshot":
                calls.append(node)
                return  # outermost only
            self.generic_visit(node)

    V().visit(tree)
    calls.sort(key=lambda n: (n.lineno, n.col_offset))
    return [(ast.get_source_segment(source, c.args[0]) if c.args else None) for c in calls], calls
