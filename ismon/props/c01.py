"""C01 - a created snapshot reads back as the value that was observed.

Workload: files of empty snapshot() sites (five operations, placements, value universe);
one in-process session approving `create`; oracle = plain re-execution of the rewritten
module with inline-snapshot inactive (recording style: every comparison must be True) and,
on a sample, an asserting-style module that must pass.
"""

from __future__ import annotations

import random

from .. import common
from .. import counterfactual
from .. import gen
from .. import inproc
from .. import oracles
from .. import program

PROP = "C01"
RULE = (
    "random files of 6-14 argument-less snapshot() sites; per site op in {==, reflected ==, <=, >=, in, [k]} x value tree from the "
    "universe (depth<=3 quick, <=5 thorough) x placement {loop, helper argument, module level, comprehension, assert}; one in-process "
    "create run, then plain re-execution with inline-snapshot inactive. A case is a site; non-trivial = the site was reached and a "
    "create change was applied; distinct = (op, placement, value shape signature)."
)
ASSUMPTIONS = [
    "nan/inf are not in the universe (their repr is not an expression); HasRepr objects are not placed in sets/dict keys (HasRepr is unhashable by design)",
    "bounds draw from totally ordered groups",
    "a run that ends in an internal error is C18's witness and is counted as crashed here (inconclusive above 5%)",
    "in-process driver mirrors Example.run_inline; real-session equivalence is C19's claim",
]

PLACES = ["loop", "loop", "helper", "module", "comp", "assert"]


def make_site(rng, i, depth):
    op = rng.choice(["eq", "eq", "eq", "req", "le", "ge", "in", "getitem"])
    place = rng.choice(PLACES)
    s = {"id": i, "op": op, "old": None, "place": place}
    if op in ("eq", "req") and rng.random() < 0.06:
        # a field left to its default factory and changed in place afterwards: it is no longer "at its default"
        cls = rng.choice(["DC", "AT", "PM"])
        s["obs"] = [f"appended({cls}(a={rng.randint(0, 99)}), 'c', {rng.randint(0, 99)})"] * rng.choice([1, 2])
        s["sig"] = "default-factory-field-mutated/" + cls
        return s
    if op in ("eq", "req"):
        t = gen.gen_value(rng, depth)
        s["obs"] = [gen.expr(t)] * rng.choice([1, 1, 2])
        s["sig"] = gen.kind_sig(t)
    elif op in ("le", "ge"):
        g, ts = gen.gen_ordered(rng, rng.randint(1, 4))
        s["obs"] = [gen.expr(t) for t in ts]
        s["sig"] = g
    elif op == "in":
        ts = [gen.gen_value(rng, depth - 1) for _ in range(rng.randint(1, 4))]
        s["obs"] = [gen.expr(t) for t in ts]
        s["sig"] = "+".join(sorted({gen.kind_sig(t) for t in ts}))
    else:
        child = rng.choice(["eq", "eq", "le", "in"])
        s["child"] = child
        keys = gen._dedupe([gen.gen_value(rng, 1, True) for _ in range(rng.randint(1, 3))]) or [("int", 0)]
        obs = []
        sigs = set()
        for k in keys:
            if child == "le":
                _, ts = gen.gen_ordered(rng, rng.randint(1, 2), "int")
            else:
                ts = [gen.gen_value(rng, depth - 1) for _ in range(1 if child == "eq" else rng.randint(1, 2))]
            for t in ts:
                obs.append((gen.expr(k), gen.expr(t)))
                sigs.add(gen.kind_sig(t))
        s["obs"] = obs
        s["sig"] = child + ":" + gen.kind_sig(keys[0]) + ":" + "+".join(sorted(sigs))
        if place in ("comp",):
            s["place"] = "loop"
    return s


_H = "from inline_snapshot import snapshot, outsource\nfrom vp import *\n"
# layouts of the import block of a real test module; none of them binds HasRepr / external at module level
REAL_HEADERS = [
    ("plain", _H),
    ("docstring_future", '"""module docstring"""\nfrom __future__ import annotations\n' + _H),
    ("function_local_import", _H + "\n\ndef _lazy_names():\n    from inline_snapshot import HasRepr, external\n\n    return HasRepr, external\n"),
    ("type_checking_import", "import typing\n" + _H + "\nif typing.TYPE_CHECKING:\n    from inline_snapshot import HasRepr, external\n"),
    ("class_body_import", _H + "\n\nclass _Names:\n    from inline_snapshot import HasRepr, external\n"),
    ("comment_and_blank_lines", "# -*- coding: utf-8 -*-\n\n# names used below\n" + _H + "\nX = 1  # from inline_snapshot import HasRepr, external\n"),
]


def run_shard(args):
    tier = args.tier
    ncases = {"quick": 80, "thorough": 1500}[tier]
    depth = {"quick": 3, "thorough": 5}[tier]
    out = {"evaluations": 0, "signatures": set(), "samples": [], "violations": [], "counters": {"sites_created": 0, "files": 0, "crashed": 0, "plain_reexec_events": 0, "asserting_files": 0, "ops": {}}, "inconclusive": []}
    for c in range(ncases):
        rng = random.Random(f"{args.seed}/{PROP}/{args.shard}/{c}")
        sites = [make_site(rng, i, depth) for i in range(rng.randint(6, 14))]
        # externals need storage shared between the create run and the re-execution: keep them out
        # of the recording files of this property's plain re-execution by running both in one dir
        style = "rec" if rng.random() < 0.8 else "assert"
        src, order = program.build(sites, style=style, tests=rng.randint(1, 3))
        files = {"test_a.py": src}
        status, detail, res = run_one(files, order, sites, style)
        out["counters"]["files"] += 1
        if status == "crashed":
            out["counters"]["crashed"] += 1
            continue
        if status == "skip":
            out["inconclusive"].append(f"generated module failed to execute: {detail}")
            continue
        for s in sites:
            out["evaluations"] += 1
            out["signatures"].add(f"{s['op']}/{s['place']}/{s['sig']}")
            out["counters"]["ops"][s["op"]] = out["counters"]["ops"].get(s["op"], 0) + 1
        out["counters"]["sites_created"] += sum(1 for i in res.sites if "create" in i.get("flags", []))
        ev = detail.get("events", 0)
        out["counters"]["plain_reexec_events"] += ev if isinstance(ev, int) else len(ev)
        if style == "assert":
            out["counters"]["asserting_files"] += 1
        if len(out["samples"]) < 3 and status == "ok":
            out["samples"].append({"file": detail.get("new", "")[:1500]})
        if status == "violation":
            fid = classify(files, order, sites, style)
            detail.update(files=files, flags=["create"], style=style, seed=args.seed, shard=args.shard, case=c)
            out["violations"].append({"kind": detail["kind"], "detail": {k: detail[k] for k in detail if k not in ("files",)}, "witness": {"files": files}, "finding": fid})
    # ---- real sessions: `pytest --inline-snapshot=create` followed by `--inline-snapshot=disable` must be green
    from .. import session

    nreal = {"quick": 1 if args.shard < len(REAL_HEADERS) else 0, "thorough": 8}[tier]
    for c in range(nreal):
        rng = random.Random(f"{args.seed}/{PROP}/session/{args.shard}/{c}")
        sites = [make_site(rng, i, depth) for i in range(rng.randint(6, 12))]
        for s in sites:
            if s["place"] == "module":
                s["place"] = "loop"  # an empty module-level snapshot() makes the disabled import fail by design
        # values whose generated code needs a name the module does not import yet (HasRepr, external):
        # the plugin has to add the import wherever the module's own imports are
        n = len(sites)
        sites.append({"id": n, "op": "eq", "old": None, "place": "loop", "obs": [f"Weird({rng.randint(0, 9)})"], "sig": "weird"})
        sites.append({"id": n + 1, "op": "eq", "old": None, "place": "loop", "obs": [f"outsource({'payload %d' % rng.randint(0, 99)!r})"], "sig": "ext"})
        hname, header = REAL_HEADERS[(args.shard + c) % len(REAL_HEADERS)]
        out["counters"]["real_header_" + hname] = out["counters"].get("real_header_" + hname, 0) + 1
        src, order = program.build(sites, style="assert", tests=rng.randint(2, 4), header=header)
        proj = session.Project({"test_a.py": src})
        try:
            r1 = session.run_session(proj, ["--inline-snapshot=create"])
            r2 = session.run_session(proj, ["--inline-snapshot=disable"])
        finally:
            proj.close()
        out["counters"]["real_session_pairs"] = out["counters"].get("real_session_pairs", 0) + 1
        out["evaluations"] += len(sites)
        out["signatures"].add("real-session/create-then-disable")
        wit = {"files": {"test_a.py": src}, "args": ["--inline-snapshot=create", "--inline-snapshot=disable"]}
        if any(a["kind"] == "sessionfinish_exception" for a in r1.audit):
            out["violations"].append({"kind": "session-end-raised", "detail": {"events": [a for a in r1.audit if a["kind"] == "sessionfinish_exception"]}, "witness": wit, "finding": None})
        elif r2.exit != 0:
            out["violations"].append({"kind": "disabled-session-fails-after-real-create-session", "detail": {"exit": r2.exit, "outcomes": {k: v for k, v in r2.outcomes.items() if v != "passed"}, "stdout_tail": r2.stdout[-800:], "new": r1.after.get("test_a.py", b"").decode()[:2500]}, "witness": wit, "finding": None})
    out["signatures"] = sorted(out["signatures"])
    return out


def run_one(files, order, sites, style):
    return oracles.roundtrip(files, ("create",), style)


def classify(files, order, sites, style):
    """Known mechanism: lone string fragment formatted by black as a module docstring."""
    with counterfactual.no_docstring_treatment() as hits:
        status, _, _ = run_one(files, order, sites, style)
    if status == "ok" and hits[0] > 0:
        return "F1-lone-string-docstring"
    return None


def replay(data):
    files = data["witness"]["files"]
    src = files["test_a.py"]
    style = data["detail"].get("style", "rec")
    _, calls = program.outer_snapshot_args(src)
    order = list(range(len(calls)))
    status, detail, _ = run_one(files, order, [], style)
    print(status, {k: v for k, v in detail.items() if k != "new"})
    print(detail.get("new", ""))
    return 1 if status == "violation" else 0


def main(tier, seed):
    out = common.Outcome(PROP, tier, seed)
    for sh in common.run_shards(PROP, tier, seed):
        out.merge(sh)
    files = out.counters.get("files", 0)
    if files and out.counters.get("crashed", 0) > 0.05 * files:
        out.inconclusive.append(f"{out.counters['crashed']} of {files} runs ended in an internal error (C18)")
    return common.finish(out, RULE, ASSUMPTIONS, min_evals=200, min_distinct=50, required_counters=("sites_created", "plain_reexec_events"))
