"""C02 - approving create+fix repairs every reached snapshot in a single run.

Workload: (old snapshot text rendered with hostile layout from tree p, observed value
v = edit-script(p) or unrelated) over all container kinds; several sites per test, earlier
ones failing; one in-process run with {create, fix}; oracle = plain re-execution.
"""

from __future__ import annotations

import random

from .. import common
from .. import counterfactual
from .. import gen
from .. import oracles
from .. import program

PROP = "C02"
RULE = (
    "files of 5-10 sites; per site: previous text = hostile-layout rendering (random blanks/newlines/comments/trailing commas/quote styles/implicit "
    "concatenation/hand-written sub-expressions like 0+1, int('3')) of a value tree p, or empty; observed value = 1-3 chained edit scripts applied to p "
    "(insert/delete/replace/reorder/duplicate/clear, dict key move, field to/from default, class change, type change, nesting) or an unrelated value; "
    "ops ==, reflected ==, <=, >=, in, [k]; one run approving create+fix, then plain re-execution. case = site; non-trivial = a create or fix change was "
    "emitted for the site; distinct = (op, old shape, new shape, edit kinds, change classes emitted)."
)
ASSUMPTIONS = [
    "exemptions are enforced by construction: each == site is compared with a single value, no user-controlled parts (those are C10's workload)",
    "runs ending in an internal error are C18's witnesses, counted as crashed (inconclusive above 5%)",
]


def has_kind(t, kinds):
    k, p = t
    if k in kinds:
        return True
    if k in ("list", "tuple", "set", "frozenset"):
        return any(has_kind(c, kinds) for c in p)
    if k == "dict":
        return any(has_kind(a, kinds) or has_kind(b, kinds) for a, b in p)
    if k == "dd":
        return has_kind(p[1], kinds)
    if k == "call":
        return any(has_kind(v, kinds) for _, v in p[1])
    return False


def old_tree(rng, depth, **kw):
    for _ in range(20):
        t = gen.gen_value(rng, depth, **kw)
        if not has_kind(t, ("ext",)):
            return t
    return ("int", 0)


def make_site(rng, i, depth):
    op = rng.choice(["eq", "eq", "eq", "eq", "req", "le", "ge", "in", "getitem"])
    place = rng.choice(["loop", "loop", "helper", "module", "comp"])
    s = {"id": i, "op": op, "place": place, "edits": []}
    if rng.random() < 0.1:
        s["old"] = None
    if op in ("eq", "req"):
        p = old_tree(rng, depth)
        v = p
        r = rng.random()
        if r < 0.75:
            for _ in range(rng.randint(1, 3)):
                v, kind = gen.mutate(v, rng)
                s["edits"].append(kind.split(":")[-1])
        elif r < 0.9:
            v = gen.gen_value(rng, depth)
            s["edits"].append("unrelated")
        else:
            s["edits"].append("same")
        s.setdefault("old", gen.layout(p, rng))
        s["obs"] = [gen.expr(v)] * rng.choice([1, 1, 2])
        s["sig"] = f"{gen.kind_sig(p, 1)}>{gen.kind_sig(v, 1)}"
    elif op in ("le", "ge"):
        if rng.random() < 0.15:
            # partial order (sets under inclusion): the observed values form a chain, the previous value may be incomparable
            g, prev, chain = gen.gen_poset(rng, rng.randint(1, 3))
            ts = [prev] + chain
        else:
            g, ts = gen.gen_ordered(rng, rng.randint(2, 4))
        s.setdefault("old", gen.layout(ts[0], rng))
        s["obs"] = [gen.expr(t) for t in ts[1:]]
        s["sig"] = g
    elif op == "in":
        members = [old_tree(rng, depth - 1) for _ in range(rng.randint(0, 3))]
        tested = [t for t in members if rng.random() < 0.6] + [gen.gen_value(rng, depth - 1) for _ in range(rng.randint(0, 2))]
        if not tested:
            tested = [gen.gen_value(rng, 1)]
        rng.shuffle(tested)
        s.setdefault("old", gen.layout(("list", tuple(members)), rng))
        s["obs"] = [gen.expr(t) for t in tested]
        s["sig"] = f"in{len(members)}/{len(tested)}"
    else:
        keys = gen._dedupe([gen.gen_value(rng, 1, True) for _ in range(rng.randint(1, 4))]) or [("int", 0)]
        old_items = []
        obs = []
        for k in keys:
            r = rng.random()
            ov = old_tree(rng, depth - 1)
            if r < 0.3:
                old_items.append((k, ov))  # unused key
            elif r < 0.6:
                old_items.append((k, ov))
                nv, kind = gen.mutate(ov, rng)
                s["edits"].append(kind.split(":")[-1])
                obs.append((gen.expr(k), gen.expr(nv)))
            elif r < 0.8:
                old_items.append((k, ov))
                obs.append((gen.expr(k), gen.expr(ov)))
            else:
                obs.append((gen.expr(k), gen.expr(gen.gen_value(rng, depth - 1))))  # new key
        if not obs:
            obs.append((gen.expr(keys[0]), gen.expr(gen.gen_value(rng, 1))))
        s["child"] = "eq"
        s.setdefault("old", gen.layout(("dict", tuple(old_items)), rng))
        s["obs"] = obs
        s["sig"] = f"getitem{len(old_items)}/{len(obs)}"
        if place == "comp":
            s["place"] = "loop"
    return s


def run_one(files, style):
    return oracles.roundtrip(files, ("create", "fix"), style, expect_fail_sites=(-1,))


# a test that runs first and whose comparison raises while the elements of a list are aligned: whatever that
# leaves behind must not keep the later snapshots of the session from being repaired (site -1 itself keeps failing)
POISON = (
    "class _OnlyComparableToItself:\n    def __eq__(self, other):\n        if type(other) is not _OnlyComparableToItself:\n            raise ZeroDivisionError('cannot compare')\n        return True\n\n"
    "    def __repr__(self):\n        return '_OnlyComparableToItself()'\n\n\n"
    "def test_00_raising_comparison():\n    rec(-1, lambda: [_OnlyComparableToItself(), 3] == snapshot([1, 2]))\n\n\n"
)


def classify(files, style):
    with counterfactual.no_docstring_treatment() as hits:
        status, _, _ = run_one(files, style)
    if status == "ok" and hits[0] > 0:
        return "F1-lone-string-docstring"
    return None


def run_shard(args):
    tier = args.tier
    ncases = {"quick": 70, "thorough": 2500}[tier]
    depth = {"quick": 3, "thorough": 4}[tier]
    C = {"files": 0, "crashed": 0, "reexec_events": 0, "sites_with_fix": 0, "sites_with_create": 0, "change_kinds": {}, "edit_kinds": {}, "crash_kinds": {}}
    out = {"evaluations": 0, "signatures": set(), "samples": [], "violations": [], "counters": C, "inconclusive": []}
    for c in range(ncases):
        rng = random.Random(f"{args.seed}/{PROP}/{args.shard}/{c}")
        sites = [make_site(rng, i, depth) for i in range(rng.randint(5, 10))]
        style = "rec" if rng.random() < 0.75 else "assert"
        src, order = program.build(sites, style=style, tests=rng.randint(1, 3))
        if style == "rec" and rng.random() < 0.15:
            src = src.replace("def test_0():", POISON + "def test_0():", 1)
            C["files_with_raising_comparison_first"] = C.get("files_with_raising_comparison_first", 0) + 1
        files = {"test_a.py": src}
        status, detail, res = run_one(files, style)
        C["files"] += 1
        if status == "crashed":
            C["crashed"] += 1
            k = str((detail.get("collect") or detail.get("apply"))[::2])
            C["crash_kinds"][k] = C["crash_kinds"].get(k, 0) + 1
            continue
        if status == "skip":
            out["inconclusive"].append(f"generated module failed to execute: {detail}")
            continue
        # res.sites is in first-evaluation order; count change classes per site
        for info in res.sites:
            fl = info.get("flags", [])
            if "fix" in fl:
                C["sites_with_fix"] += 1
            if "create" in fl:
                C["sites_with_create"] += 1
            for kd in info.get("kinds", []):
                C["change_kinds"][kd] = C["change_kinds"].get(kd, 0) + 1
        for s in sites:
            out["evaluations"] += 1
            for e in s["edits"]:
                C["edit_kinds"][e] = C["edit_kinds"].get(e, 0) + 1
            out["signatures"].add(f"{s['op']}/{s['sig']}/{'+'.join(sorted(set(s['edits'])))}")
        if status == "ok":
            C["reexec_events"] += detail["events"]
            if len(out["samples"]) < 2:
                out["samples"].append({"before": src[:1200], "after": detail["new"][:1200]})
            continue
        fid = classify(files, style)
        out["violations"].append({"kind": detail["kind"], "detail": {**{k: v for k, v in detail.items() if k != "new"}, "style": style, "seed": args.seed, "shard": args.shard, "case": c, "new": detail.get("new", "")[:3000]}, "witness": {"files": files, "flags": ["create", "fix"], "style": style}, "finding": fid})
    # regression corpus (shapes of the defects found on the pinned tree), once per run
    if args.shard == 0:
        from .. import corpus

        csites = corpus.sites()
        src, order = program.build(csites, style="rec", tests=4)
        files = {"test_a.py": src}
        status, detail, res = run_one(files, "rec")
        C["corpus_sites"] = len(csites)
        out["evaluations"] += len(csites)
        for s in csites:
            out["signatures"].add(f"corpus/{s['sig']}")
        if status == "crashed":
            out["violations"].append({"kind": "corpus-run-crashed", "detail": detail, "witness": {"files": files, "flags": ["create", "fix"], "style": "rec"}, "finding": None})
        elif status == "violation":
            out["violations"].append({"kind": "corpus:" + detail["kind"], "detail": {k: v for k, v in detail.items() if k != "new"} | {"new": detail.get("new", "")[:3000]}, "witness": {"files": files, "flags": ["create", "fix"], "style": "rec"}, "finding": None})
        elif status == "ok":
            C["reexec_events"] += detail["events"]
    # ---- real sessions: however the session ends (all tests run, stopped at the first failure, interrupted by
    # pytest.exit / Ctrl-C), the snapshots of the tests that ran are repaired
    from .. import session

    nreal = {"quick": 1 if args.shard < len(ENDINGS) else 0, "thorough": 6}[tier]
    for c in range(nreal):
        rng = random.Random(f"{args.seed}/{PROP}/session/{args.shard}/{c}")
        ename, eargs, tail, cache = ENDINGS[(args.shard + c) % len(ENDINGS)]
        sites = [make_site(rng, i, 2) for i in range(rng.randint(6, 9))]
        for s in sites:
            if s["place"] == "module":
                s["place"] = "loop"  # an empty module-level snapshot makes the disabled import fail by design
        src, order = program.build(sites, style="assert", tests=3, header="import pytest\nfrom inline_snapshot import snapshot, Is, HasRepr, external, outsource\nfrom vp import *\n")
        # a fix whose only difference is white space at the end of a line of a multi-line string
        src += '\n\ndef test_ws_only_difference():\n    assert "col1\\t\\ncol2\\n" == snapshot("""\\\ncol1\ncol2\n""")\n    assert "x \\ny\\n" == snapshot("""\\\nx\ny\n""")\n'
        src += tail
        proj = session.Project({"test_a.py": src})
        try:
            r1 = session.run_session(proj, ["--inline-snapshot=create,fix"] + eargs, cache=cache)
            ran = sorted(t.split("::")[-1] for t in r1.outcomes if t.split("::")[-1].startswith("test_") and not t.endswith(("test_zz_exit", "test_zz_interrupt")))
            r2 = session.run_session(proj, ["--inline-snapshot=disable", "-k", " or ".join(ran) or "nothing"]) if ran else None
        finally:
            proj.close()
        C["real_sessions"] = C.get("real_sessions", 0) + 1
        C["real_ending_" + ename] = C.get("real_ending_" + ename, 0) + 1
        out["signatures"].add(f"real-session/{ename}/exit{r1.exit}")
        wit = {"files": {"test_a.py": src}, "args": ["--inline-snapshot=create,fix"] + eargs, "then": "--inline-snapshot=disable"}
        if any(a["kind"] == "sessionfinish_exception" for a in r1.audit):
            out["violations"].append({"kind": "session-end-raised", "detail": {"ending": ename, "events": [a for a in r1.audit if a["kind"] == "sessionfinish_exception"]}, "witness": wit, "finding": None})
            continue
        if not ran:
            out["inconclusive"].append(f"real session ({ename}) ran no test: exit={r1.exit} {r1.stdout[-300:]}")
            continue
        out["evaluations"] += len(ran)
        C["real_tests_rerun_disabled"] = C.get("real_tests_rerun_disabled", 0) + len(ran)
        bad = {t: o for t, o in r2.outcomes.items() if o != "passed"}
        if bad or r2.exit != 0:
            out["violations"].append({"kind": "reached-snapshot-not-repaired(real session)", "detail": {"ending": ename, "first_exit": r1.exit, "tests_run_in_first_session": ran, "failing_when_disabled": bad, "stdout_tail": r2.stdout[-800:], "file_after_first_session": r1.after.get("test_a.py", b"").decode()[:2500]}, "witness": wit, "finding": None})
    # ---- a session whose only pending change differs from the file in white space at a line end
    if args.shard in (6, 7) or tier == "thorough":
        wsrc = 'from inline_snapshot import snapshot\n\n\ndef test_ws_only_difference():\n    assert "col1\\t\\ncol2\\n" == snapshot("""\\\ncol1\ncol2\n""")\n'
        for fargs, stdin in ((["--inline-snapshot=fix"], None), (["--inline-snapshot=review"], b"y\ny\ny\ny\n")):
            proj = session.Project({"test_ws.py": wsrc}, with_vp=False)
            try:
                r1 = session.run_session(proj, fargs, env={"FORCE_COLOR": "true"} if stdin else None, stdin=stdin)
                r2 = session.run_session(proj, ["--inline-snapshot=disable"])
            finally:
                proj.close()
            C["real_sessions"] = C.get("real_sessions", 0) + 1
            C["whitespace_only_change_sessions"] = C.get("whitespace_only_change_sessions", 0) + 1
            out["evaluations"] += 1
            out["signatures"].add("real-session/whitespace-only-change/" + fargs[0])
            if r2.exit != 0:
                out["violations"].append({"kind": "reached-snapshot-not-repaired(real session)", "detail": {"ending": "whitespace-only change", "args": fargs, "first_exit": r1.exit, "file_after_first_session": r1.after.get("test_ws.py", b"").decode(), "stdout_tail": r2.stdout[-500:]}, "witness": {"files": {"test_ws.py": wsrc}, "args": fargs}, "finding": None})
    out["signatures"] = sorted(out["signatures"])
    return out


# (name, extra pytest arguments, test appended to the file, needs the cache plugin)
ENDINGS = [
    ("all-tests-run", [], "", False),
    ("exitfirst", ["-x"], "", False),
    ("maxfail", ["--maxfail=2"], "", False),
    ("stepwise", ["--stepwise"], "", True),
    ("pytest-exit", [], "\n\ndef test_zz_exit():\n    pytest.exit('enough for today')\n", False),
    ("keyboard-interrupt", [], "\n\ndef test_zz_interrupt():\n    raise KeyboardInterrupt()\n", False),
]


def replay(data):
    st, d, _ = run_one(data["witness"]["files"], data["witness"].get("style", "rec"))
    print(st, {k: v for k, v in d.items() if k != "new"})
    print(d.get("new", ""))
    return 1 if st == "violation" else 0


def main(tier, seed):
    out = common.Outcome(PROP, tier, seed)
    for sh in common.run_shards(PROP, tier, seed):
        out.merge(sh)
    files = out.counters.get("files", 0)
    if files and out.counters.get("crashed", 0) > 0.05 * files:
        out.inconclusive.append(f"{out.counters['crashed']} of {files} runs ended in an internal error (C18): {out.counters.get('crash_kinds')}")
    return common.finish(out, RULE, ASSUMPTIONS, min_evals=200, min_distinct=50, required_counters=("sites_with_fix", "reexec_events"))
