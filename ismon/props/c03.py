"""C03 - rewriting touches only the arguments of snapshot() calls.

Hostile file layouts x random approved subsets; boundary oracle independent of asttokens:
outermost snapshot(...) spans are located with `ast` byte offsets in the original and in
the rewritten file.  Without whole-file formatting the bytes outside those spans and the
spans of sites without an approved pending change must be identical (newline style, BOM,
final newline included); with whole-file formatting (file was black-clean / format-command)
the syntax tree with the snapshot arguments masked must be identical.  Always: valid Python.
"""

from __future__ import annotations

import ast
import itertools
import random
import re

from .. import common
from .. import gen
from .. import inproc
from .. import program
from .c02 import old_tree

PROP = "C03"
CATS = ["create", "fix", "trim", "update"]
RULE = (
    "generated test files with 4-10 sites in statement templates {plain, non-ASCII text and a string containing 'snapshot(' left of the call on the same line, two sites on one line, "
    "nested calls f(g(snapshot(..))), multi-line arguments with comments, tab indentation, class method, long line} x site state {empty, wrong value, slack `in` member, non-canonical "
    "text, clean} x file variant {LF, CRLF, CR; BOM; no final newline; form feed; black-clean; format-command cat/black} x random approved subset; case = (file, F); "
    "non-trivial = at least one approved pending change was applied; distinct = (file variant, templates used, F, whole-file-formatting?)."
)
ASSUMPTIONS = [
    "source files are UTF-8; files use one newline style consistently (mixed styles cannot be preserved per line by any rewriting that reads text in universal-newline mode)",
    "whole-file formatting is decided by the harness itself: format-command configured, or black(original, project mode) == original",
    "the import line added by the pytest plugin for external/HasRepr is exercised by the real-session checks (C04/C13); the in-process header imports those names",
]

HEADER = "from inline_snapshot import snapshot, Is, HasRepr, external, outsource\nfrom vp import *\n\n\ndef ident(x):\n    return x\n"


def site_state(rng, i):
    """returns (state, old text or None, observed expr, op)"""
    state = rng.choice(["empty", "wrong", "slack", "noncanon", "clean", "clean", "wrong"])
    t = old_tree(rng, 2)
    if state == "empty":
        return state, None, gen.expr(t), "eq"
    if state == "wrong":
        v = gen.near(t, rng)
        return state, gen.layout(t, rng, multiline=rng.random() < 0.4), gen.expr(v), "eq"
    if state == "slack":
        members = [old_tree(rng, 1) for _ in range(rng.randint(2, 4))]
        return state, gen.layout(("list", tuple(members)), rng), gen.expr(members[0]), "in"
    if state == "noncanon":
        return state, gen.layout(t, rng, handwritten=0.5, multiline=rng.random() < 0.4), gen.expr(t), "eq"
    return state, None, gen.expr(t), "clean"  # text filled in later with the tool's own canonical text


def build_file(rng, sites):
    L = [HEADER.rstrip("\n"), "", "O = {"]
    for s in sites:
        L.append(f"    {s['id']}: {s['obs']},")
    L += ["}", ""]
    tmpl_used = set()
    tabs = rng.random() < 0.2
    ind = "\t" if tabs else "    "
    in_class = rng.random() < 0.2
    k = 0
    pend = list(sites)
    tno = 0
    while pend:
        n = rng.randint(1, 3)
        chunk, pend = pend[:n], pend[n:]
        if in_class and tno == 0:
            L.append("class TestK:")
        base = ind if in_class else ""
        L.append(f"{base}def test_{tno}({'self' if in_class else ''}):")
        tno += 1
        body_ind = base + ind
        if rng.random() < 0.3:
            L.append(f'{body_ind}"""docstring with snapshot(1) and é"""')
        j = 0
        while j < len(chunk):
            s = chunk[j]
            snap = "snapshot()" if s["old"] is None else f"snapshot({s['old']})"
            cmpx = f"O[{s['id']}] in {snap}" if s["op"] == "in" else f"O[{s['id']}] == {snap}"
            tm = rng.choice(["plain", "unicode_left", "two", "nested", "longline", "comment_after"])
            if tm == "two" and j + 1 < len(chunk):
                s2 = chunk[j + 1]
                snap2 = "snapshot()" if s2["old"] is None else f"snapshot({s2['old']})"
                cmp2 = f"O[{s2['id']}] in {snap2}" if s2["op"] == "in" else f"O[{s2['id']}] == {snap2}"
                L.append(f"{body_ind}rec({s['id']}, lambda: {cmpx}); rec({s2['id']}, lambda: {cmp2})")
                j += 2
                tmpl_used.add("two")
                continue
            if tm == "unicode_left":
                L.append(f"{body_ind}é = 'ü🐍 snapshot(0)'; rec({s['id']}, lambda: {cmpx})  # ü trailing ) comment")
            elif tm == "nested" and s["op"] != "in":
                L.append(f"{body_ind}rec({s['id']}, lambda: ident(ident(O[{s['id']}])) == ident({snap}))")
            elif tm == "longline":
                L.append(f"{body_ind}rec({s['id']}, lambda: {cmpx}) ; filler = {'x' * 150!r}")
            elif tm == "comment_after":
                L.append(f"{body_ind}rec({s['id']}, lambda: {cmpx})  # snapshot(  unbalanced [ in comment")
                L.append(f"{body_ind}# a comment line between statements ü")
            else:
                tm = "plain"
                L.append(f"{body_ind}rec({s['id']}, lambda: {cmpx})")
            tmpl_used.add(tm if tm != "two" else "plain")
            j += 1
        L.append("")
    if tabs:
        tmpl_used.add("tabs")
    if in_class:
        tmpl_used.add("class")
    return "\n".join(L) + "\n", tmpl_used


def call_spans(text: str):
    """(start, end) character offsets of outermost snapshot(...) calls in an LF-normalised text"""
    tree = ast.parse(text)
    lines = text.split("\n")
    starts = [0]
    for ln in lines:
        starts.append(starts[-1] + len(ln) + 1)
    blines = [ln.encode("utf-8") for ln in lines]

    def off(lineno, col):
        return starts[lineno - 1] + len(blines[lineno - 1][:col].decode("utf-8"))

    calls = []

    class V(ast.NodeVisitor):
        def visit_Call(self, node):
            if isinstance(node.func, ast.Name) and node.func.id == "snapshot":
                calls.append(node)
                return
            self.generic_visit(node)

    V().visit(tree)
    calls.sort(key=lambda n: (n.lineno, n.col_offset))
    return [(off(c.lineno, c.col_offset), off(c.end_lineno, c.end_col_offset)) for c in calls], tree


def mask(text, spans):
    out, last = [], 0
    for a, b in spans:
        out.append(text[last:a])
        out.append("snapshot(@)")
        last = b
    out.append(text[last:])
    return "".join(out)


class _MaskArgs(ast.NodeTransformer):
    def visit_Call(self, node):
        if isinstance(node.func, ast.Name) and node.func.id == "snapshot":
            return ast.Call(func=node.func, args=[ast.Constant(value="@")], keywords=[])
        return self.generic_visit(node)


def masked_dump(text):
    return ast.dump(_MaskArgs().visit(ast.parse(text)))


def newline_style(raw: bytes):
    if b"\r\n" in raw:
        return "\r\n"
    if b"\r" in raw and b"\n" not in raw:
        return "\r"
    return "\n"


def run_shard(args):
    tier = args.tier
    ncases = {"quick": 40, "thorough": 1500}[tier]
    C = {"files": 0, "runs": 0, "crashed": 0, "changes_applied_runs": 0, "byte_oracle_runs": 0, "ast_oracle_runs": 0, "clean_sites_checked": 0, "variants": {}, "crash_kinds": {}}
    out = {"evaluations": 0, "signatures": set(), "samples": [], "violations": [], "counters": C, "inconclusive": []}
    import black

    for c in range(ncases):
        rng = random.Random(f"{args.seed}/{PROP}/{args.shard}/{c}")
        sites = []
        for i in range(rng.randint(4, 10)):
            state, old, obs, op = site_state(rng, i)
            sites.append({"id": i, "state": state, "old": old, "obs": obs, "op": op})
        # clean sites get the tool's own canonical text: create them first in a scratch run
        src0, _ = build_file(random.Random(1), [dict(s, old=None, op="eq" if s["op"] == "clean" else s["op"]) for s in sites if s["op"] == "clean"] or [dict(id=0, old=None, obs="1", op="eq")])
        res0 = inproc.run({"test_a.py": src0}, ("create",))
        canon = {}
        if not res0.crashed() and not res0.exec_exc:
            try:
                a0, _ = program.outer_snapshot_args(res0.files_after["test_a.py"].decode())
            except SyntaxError as e:
                out["violations"].append({"kind": "unparsable", "detail": {"variant": "lf", "F": ["create"], "error": str(e), "new": res0.files_after["test_a.py"].decode()[:3000]}, "witness": {"files": {"test_a.py": src0}, "flags": ["create"]}, "finding": None})
                continue
            ids0 = [s["id"] for s in sites if s["op"] == "clean"] or [0]
            canon = dict(zip(ids0, a0))
        for s in sites:
            if s["op"] == "clean":
                s["old"] = canon.get(s["id"]) or s["obs"]
                s["op"] = "eq"
        text, tmpl = build_file(rng, sites)
        variant = rng.choice(["lf", "lf", "crlf", "cr", "bom", "nofinal", "formfeed", "blackclean", "blackclean", "cmd_cat", "cmd_black"])
        files = {}
        whole = False
        if variant == "blackclean":
            try:
                text = black.format_str(text, mode=black.FileMode())
            except Exception:
                variant = "lf"
            whole = variant == "blackclean"
        if variant in ("cmd_cat", "cmd_black"):
            files["pyproject.toml"] = '[tool.inline-snapshot]\nformat-command="' + ("cat" if variant == "cmd_cat" else "/venv/bin/python -m black -q --stdin-filename {filename} -") + '"\n'
            whole = variant == "cmd_black"  # cat changes nothing: byte oracle applies
        if variant == "formfeed":
            text = text.replace("\ndef test_1", "\n\x0c\ndef test_1", 1)
            # characters that str.splitlines() treats as line boundaries but Python's tokenizer does not,
            # in a string literal and a comment above the snapshots
            text = text.replace("\ndef test_0", '\nSEPARATORS = "a\x0bb\x1cc\x1dd\x1ee\x85f\u2028g\u2029h"  # \x0c \u2028 in a comment\n\ndef test_0', 1)
        if variant == "nofinal":
            text = text.rstrip("\n")
        raw = text.encode("utf-8")
        if variant == "crlf":
            raw = text.replace("\n", "\r\n").encode("utf-8")
        if variant == "cr":
            raw = text.replace("\n", "\r").encode("utf-8")
        if variant == "bom":
            raw = b"\xef\xbb\xbf" + raw
        if not whole and variant not in ("cmd_cat",):
            try:
                whole = black.format_str(text, mode=black.FileMode()) == text
            except Exception:
                whole = False
        files["test_a.py"] = raw
        C["files"] += 1
        C["variants"][variant] = C["variants"].get(variant, 0) + 1
        for F in [frozenset(x for x in CATS if rng.random() < 0.5) for _ in range(2)] + [frozenset(CATS)]:
            res = inproc.run(files, F)
            C["runs"] += 1
            wit = {"files": {k: (v.decode("utf-8", "backslashreplace") if isinstance(v, bytes) else v) for k, v in files.items()}, "raw_repr": repr(raw[:3000]), "flags": sorted(F), "variant": variant}
            if res.exec_exc:
                out["inconclusive"].append(f"generated module failed ({variant}): {res.exec_exc}")
                break
            if res.crashed():
                C["crashed"] += 1
                k = str((res.collect_exc or res.apply_exc)[::2])
                C["crash_kinds"][k] = C["crash_kinds"].get(k, 0) + 1
                continue
            new_raw = res.files_after["test_a.py"]
            out["evaluations"] += 1
            changed = new_raw != raw
            if changed:
                C["changes_applied_runs"] += 1
                out["signatures"].add(f"{variant}/{'+'.join(sorted(tmpl))}/{'+'.join(sorted(F)) or '-'}/{'whole' if whole else 'partial'}")
            base = {"variant": variant, "F": sorted(F), "templates": sorted(tmpl)}
            try:
                new_text_full = new_raw.decode("utf-8")
            except UnicodeDecodeError as e:
                out["violations"].append({"kind": "not-utf8-after-rewrite", "detail": {**base, "error": str(e)}, "witness": wit, "finding": None})
                continue
            # BOM / newline style / final newline
            style = newline_style(raw)
            old_text = raw.decode("utf-8")
            has_bom = old_text.startswith("﻿")
            new_lf = new_text_full
            if changed and not whole:
                if has_bom != new_text_full.startswith("﻿"):
                    out["violations"].append({"kind": "bom-changed", "detail": base, "witness": wit, "finding": None})
                if style == "\r\n" and re.search(r"(?<!\r)\n", new_text_full):
                    out["violations"].append({"kind": "newline-style-not-preserved", "detail": {**base, "style": "CRLF", "new_head": repr(new_raw[:300])}, "witness": wit, "finding": None})
                    continue
                if style == "\r" and "\n" in new_text_full:
                    out["violations"].append({"kind": "newline-style-not-preserved", "detail": {**base, "style": "CR", "new_head": repr(new_raw[:300])}, "witness": wit, "finding": None})
                    continue
            old_lf = old_text.replace(style, "\n").lstrip("﻿")
            new_lf = new_text_full.replace(style, "\n").lstrip("﻿") if style != "\n" else new_text_full.lstrip("﻿")
            try:
                new_spans, _ = call_spans(new_lf)
            except SyntaxError as e:
                out["violations"].append({"kind": "unparsable", "detail": {**base, "error": str(e), "new": new_lf[:3000]}, "witness": wit, "finding": None})
                continue
            old_spans, _ = call_spans(old_lf)
            if len(new_spans) != len(old_spans):
                out["violations"].append({"kind": "number-of-snapshot-calls-changed", "detail": {**base, "new": new_lf[:3000]}, "witness": wit, "finding": None})
                continue
            if whole:
                C["ast_oracle_runs"] += 1
                if masked_dump(old_lf) != masked_dump(new_lf):
                    out["violations"].append({"kind": "syntax-tree-outside-snapshot-arguments-changed", "detail": {**base, "new": new_lf[:3000]}, "witness": wit, "finding": None})
                continue
            C["byte_oracle_runs"] += 1
            mo, mn = mask(old_lf, old_spans), mask(new_lf, new_spans)
            if mo != mn:
                import difflib

                diff = "\n".join(difflib.unified_diff(mo.splitlines(), mn.splitlines(), lineterm="", n=0))
                out["violations"].append({"kind": "bytes-outside-snapshot-arguments-changed", "detail": {**base, "diff": diff[:1500]}, "witness": wit, "finding": None})
                continue
            # sites without an approved pending change keep their text
            _, old_calls = program.outer_snapshot_args(old_lf)
            pos2idx = {(cl.lineno, cl.col_offset): n for n, cl in enumerate(old_calls)}
            approved_changed = set()
            for info in res.sites:
                n = pos2idx.get((info.get("lineno"), info.get("col")))
                if n is not None and set(info.get("flags", [])) & F:
                    approved_changed.add(n)
            for n, ((a, b), (a2, b2)) in enumerate(zip(old_spans, new_spans)):
                if n in approved_changed:
                    continue
                C["clean_sites_checked"] += 1
                if old_lf[a:b] != new_lf[a2:b2]:
                    out["violations"].append({"kind": "site-without-approved-change-was-rewritten", "detail": {**base, "old": old_lf[a:b][:300], "new": new_lf[a2:b2][:300]}, "witness": wit, "finding": None})
        if len(out["samples"]) < 2:
            out["samples"].append({"variant": variant, "templates": sorted(tmpl), "file_head": text[:1400]})
    # ---- real sessions: the only edit allowed outside snapshot arguments is the added import line
    nreal = {"quick": 1 if args.shard < 9 else 0, "thorough": 12}[tier]
    for c in range(nreal):
        rng = random.Random(f"{args.seed}/{PROP}/import/{args.shard}/{c}")
        real_session_import_case(rng, out, C, idx=args.shard if tier == "quick" else None)
    out["signatures"] = sorted(out["signatures"])
    return out


IMPORT_HEADS = [
    ("plain", "from inline_snapshot import snapshot, outsource\n"),
    ("docstring", '"""module docstring"""\n\nfrom inline_snapshot import snapshot, outsource\n'),
    ("docstring+future", '"""module docstring"""\nfrom __future__ import annotations\n\nimport os\nfrom inline_snapshot import snapshot, outsource\n'),
    ("future", "from __future__ import annotations\nfrom inline_snapshot import snapshot, outsource\n"),
    ("docstring+code", '"""module docstring"""\n\nX = 1\nfrom inline_snapshot import snapshot, outsource\n'),
    ("comment+import-continuation", "# comment é\nimport os, \\\n    sys\nfrom inline_snapshot import (\n    snapshot,\n    outsource,\n)  # trailing\n"),
    ("shebang+docstring-single-quotes", "#!/usr/bin/env python\n'doc'\nfrom inline_snapshot import snapshot, outsource\n"),
    ("already-imported", "from inline_snapshot import snapshot, outsource\nfrom inline_snapshot import external\nfrom inline_snapshot import HasRepr\n"),
    ("try-import", "try:\n    import json\nexcept ImportError:\n    json = None\nfrom inline_snapshot import snapshot, outsource\n"),
]
LOCALES = [
    ("utf8", {}),
    # PYTHONIOENCODING: the terminal must be able to show the report (rich refuses to print non-ASCII diffs to an
    # ASCII stdout and says so); the locale encoding used by open() stays ASCII
    ("ascii-locale", {"LC_ALL": "C", "LANG": "C", "PYTHONUTF8": "0", "PYTHONCOERCECLOCALE": "0", "PYTHONIOENCODING": "utf-8"}),
    ("utf8", {}),
    ("posix-locale-utf8-mode-off", {"LC_ALL": "POSIX", "PYTHONUTF8": "0", "PYTHONCOERCECLOCALE": "0", "PYTHONIOENCODING": "utf-8"}),
]
WEIRD = "\n\n# non-ASCII text outside the snapshots: \u00e9\u00fc \u2192 \u65e5\u672c\nclass W:\n    def __repr__(self):\n        return '<W>'\n\n    def __eq__(self, other):\n        return type(other) is W or NotImplemented\n\n"


class _DropAddedImports(ast.NodeTransformer):
    def visit_Module(self, node):
        body = []
        for n in node.body:
            if isinstance(n, ast.ImportFrom) and n.module == "inline_snapshot" and len(n.names) == 1 and n.names[0].name in ("external", "HasRepr") and n.names[0].asname is None:
                continue
            body.append(n)
        node.body = body
        return node


def real_session_import_case(rng, out, C, idx=None):
    from .. import session

    hname, head = rng.choice(IMPORT_HEADS) if idx is None else IMPORT_HEADS[idx % len(IMPORT_HEADS)]
    tests = ""
    kinds = rng.sample(["external", "hasrepr", "plain"], rng.randint(1, 3))
    if "hasrepr" in kinds:
        tests += "def test_w():\n    assert W() == snapshot()\n\n\n"
    if "external" in kinds:
        tests += "def test_e():\n    assert outsource('payload é') == snapshot()\n\n\n"
    if "plain" in kinds:
        tests += "def test_p():\n    assert [1, 2] == snapshot([1])\n\n\n"
    src = head + WEIRD + "\n" + tests
    # other files rewritten in the same session that need no new name (sorted after and before test_a.py)
    others = {}
    if rng.random() < 0.7:
        others["test_b_plain.py"] = "from inline_snapshot import snapshot\n\n\ndef test_b():\n    assert [3, 4] == snapshot([3])\n    assert 'x' == snapshot()\n"
    if rng.random() < 0.4:
        others["test_0_plain.py"] = "from inline_snapshot import snapshot\n\n# first file of the session\ndef test_first():\n    assert {'k': 1} == snapshot({})\n"
    # process environment: the file is UTF-8 whatever the locale of the process that rewrites it
    lname, lenv = rng.choice(LOCALES) if idx is None else LOCALES[idx % len(LOCALES)]
    proj = session.Project({"test_a.py": src, **others}, with_vp=False)
    try:
        r = session.run_session(proj, ["--inline-snapshot=create,fix"], env=lenv)
        r2 = session.run_session(proj, ["--inline-snapshot=disable"], env=lenv)
    finally:
        proj.close()
    C["real_sessions"] = C.get("real_sessions", 0) + 2
    C["real_sessions_locale_" + lname] = C.get("real_sessions_locale_" + lname, 0) + 1
    out["evaluations"] += 1
    out["signatures"].add(f"real-session-import/{hname}/{'+'.join(sorted(kinds))}/{lname}")
    wit = {"files": {"test_a.py": src, **others}, "args": ["--inline-snapshot=create,fix"], "env": lenv}
    C["real_session_files"] = C.get("real_session_files", 0) + 1 + len(others)
    # files whose generated code needs no new name must not get an import line (nor any other line)
    for oname, osrc in others.items():
        onew = r.after.get(oname, b"").decode("utf-8", "replace")
        C["plain_sibling_files_checked"] = C.get("plain_sibling_files_checked", 0) + 1
        try:
            if mask(osrc, call_spans(osrc)[0]) != mask(onew, call_spans(onew)[0]):
                import difflib

                d = "\n".join(difflib.unified_diff(osrc.splitlines(), onew.splitlines(), "before", "after", lineterm="", n=0))
                out["violations"].append({"kind": "bytes-outside-snapshot-arguments-changed(sibling file, real session)", "detail": {"head": hname, "kinds": sorted(kinds), "file": oname, "diff": d[:800]}, "witness": wit, "finding": None})
        except SyntaxError as e:
            out["violations"].append({"kind": "unparsable", "detail": {"file": oname, "error": str(e), "new": onew[:800]}, "witness": wit, "finding": None})
    base = {"head": hname, "kinds": sorted(kinds), "locale": lname}
    try:
        new = r.after.get("test_a.py", b"").decode()
    except UnicodeDecodeError as e:
        out["violations"].append({"kind": "rewritten-file-is-not-utf-8", "detail": {**base, "error": str(e), "bytes_head": repr(r.after.get("test_a.py", b"")[:300])}, "witness": wit, "finding": None})
        return
    if not new.strip() and src.strip():
        out["violations"].append({"kind": "rewritten-file-is-empty", "detail": {**base, "stdout_tail": r.stdout[-600:]}, "witness": wit, "finding": None})
        return
    if any(a["kind"] == "sessionfinish_exception" for a in r.audit):
        out["violations"].append({"kind": "session-end-raised", "detail": {**base, "events": [a for a in r.audit if a["kind"] == "sessionfinish_exception"]}, "witness": wit, "finding": None})
        return
    try:
        new_tree = ast.parse(new)
    except SyntaxError as e:
        out["violations"].append({"kind": "unparsable", "detail": {**base, "error": str(e), "new": new[:1500]}, "witness": wit, "finding": None})
        return
    old_tree = ast.parse(src)
    if ast.get_docstring(old_tree) != ast.get_docstring(new_tree):
        out["violations"].append({"kind": "module-docstring-changed", "detail": {**base, "new_head": new[:400]}, "witness": wit, "finding": None})
    a = ast.dump(_MaskArgs().visit(_DropAddedImports().visit(old_tree)))
    b = ast.dump(_MaskArgs().visit(_DropAddedImports().visit(new_tree)))
    # the original may already import the names: dropped on both sides
    if a != b:
        out["violations"].append({"kind": "syntax-tree-outside-snapshot-arguments-changed(real session)", "detail": {**base, "new_head": new[:600]}, "witness": wit, "finding": None})
    # byte level (no whole-file formatting): besides the masked snapshot arguments only whole lines
    # `from inline_snapshot import external|HasRepr` (and blank lines) may be added, nothing removed or moved
    import black
    import difflib

    try:
        clean = black.format_str(src, mode=black.FileMode()) == src
    except Exception:
        clean = False
    if not clean:
        try:
            mo = mask(src, call_spans(src)[0]).splitlines()
            mn = mask(new, call_spans(new)[0]).splitlines()
            bad = []
            for tag, i1, i2, j1, j2 in difflib.SequenceMatcher(None, mo, mn, autojunk=False).get_opcodes():
                if tag == "equal":
                    continue
                removed, added = mo[i1:i2], mn[j1:j2]
                allowed = {""}
                new_args_text = " ".join(new[a:b] for a, b in call_spans(new)[0])
                for nm in ("external", "HasRepr"):
                    if nm + "(" in new_args_text:
                        allowed.add("from inline_snapshot import " + nm)
                if removed or any(ln.strip() not in allowed for ln in added):
                    bad.append({"removed": removed[:3], "added": added[:3], "allowed_additions": sorted(allowed)})
            C["import_byte_checks"] = C.get("import_byte_checks", 0) + 1
            if bad:
                out["violations"].append({"kind": "bytes-outside-snapshot-arguments-changed(real session)", "detail": {**base, "changes": bad[:3]}, "witness": wit, "finding": None})
        except SyntaxError:
            pass
    if r2.exit != 0:
        out["violations"].append({"kind": "rewritten-file-does-not-run(real session)", "detail": {**base, "exit": r2.exit, "stdout_tail": r2.stdout[-500:], "new_head": new[:500]}, "witness": wit, "finding": None})


def replay(data):
    files = {k: v for k, v in data["witness"]["files"].items()}
    if "raw_repr" in data["witness"]:
        files["test_a.py"] = eval(data["witness"]["raw_repr"])
    res = inproc.run(files, data["witness"]["flags"])
    print(res.collect_exc, res.apply_exc)
    print(repr(res.files_after["test_a.py"][:3000]))
    return 0


def main(tier, seed):
    out = common.Outcome(PROP, tier, seed)
    for sh in common.run_shards(PROP, tier, seed):
        out.merge(sh)
    runs = out.counters.get("runs", 0)
    if runs and out.counters.get("crashed", 0) > 0.05 * runs:
        out.inconclusive.append(f"{out.counters['crashed']} of {runs} runs ended in an internal error (C18): {out.counters.get('crash_kinds')}")
    return common.finish(out, RULE, ASSUMPTIONS, min_evals=200, min_distinct=30, required_counters=("byte_oracle_runs", "ast_oracle_runs", "clean_sites_checked", "changes_applied_runs"))
