"""C04 - nothing is written without approval; exactly the approved categories apply.

Real pytest sessions over a fixed-shape project (two test files, a helper module, a storage
directory with persisted externals) whose snapshot sites are each pending in known
categories; the configuration generator varies flag subsets x modes x sources (CLI, env
var, pyproject default-flags / default-flags-tui, built-in and custom shortcuts) x review
answers x environments (CI variables, PYCHARM_HOSTED, xdist -n 2 / -n 0) x xfail marks.
Oracle: an approval model written from docs/pytest.md and docs/configuration.md computes
whether the session is active and the approved set A; expected disk state per site from
the category model; files without approved changes must keep their bytes AND must not
appear in the audit log of write events (pid/worker tagged).
"""

from __future__ import annotations

import hashlib
import itertools
import random

from .. import common
from .. import inproc
from .. import models
from .. import program
from .. import session

PROP = "C04"
CATS = ["create", "fix", "trim", "update"]
CI_VARS = ["CI", "BUILD_ID", "BUILD_NUMBER", "BUILDKITE", "CIRCLECI", "CONTINUOUS_INTEGRATION", "GITHUB_ACTIONS", "HUDSON_URL", "JENKINS_URL", "TEAMCITY_VERSION", "TRAVIS", "bamboo.buildKey"]
RULE = (
    "project (4 variants: one without any trim-pending snapshot so that review never asks a trim question, one in which every trim change shares its list/dict with a create/fix change): test_one.py + test_two.py + helper.py + storage dir with one referenced and one unreferenced persisted external; sites pending in exactly one category (empty / wrong value / "
    "loose bound / untested member / `2+3` text / missing external) plus mixed sites (`in` list needing fix+trim, sub-snapshot needing create+trim) and xfail-marked tests; configuration = "
    "category subset x mode {-, report, review, short-report, disable} x source {CLI, INLINE_SNAPSHOT_DEFAULT_FLAGS, pyproject default-flags, default-flags-tui under FORCE_COLOR, --fix/--review, "
    "custom shortcut} incl. conflicting sources x 4 review answers x environment {plain, one of 12 CI variables, CI+PYCHARM_HOSTED, -n 2, -n 0}; case = session; non-trivial = the model's approved "
    "set is non-empty or the configuration is one of the nothing-approved kinds with pending changes; distinct = (mode, source, environment, approved set)."
)
ASSUMPTIONS = [
    "review sessions always get four answers on stdin (EOF is not an answer sequence) and FORCE_COLOR so that rich reports a terminal",
    "shortcut options exist only when a pyproject.toml is present in the invocation directory; a custom [shortcuts] table replaces the built-in ones (modelled: unknown option => usage error, exit 4, nothing written)",
    "-new files of outsourced data are not 'persisted externals'; they are C13's subject",
]

HELPER = "def double(x):\n    return 2 * x\n"


def sha(b):
    return hashlib.sha256(b).hexdigest()


PERSISTED = b"persisted data"
UNUSED = b"unused persisted data"

# (name, source lines, op, previous expr or None, observations, categories pending, xfail?)
def sites_for(variant):
    ref = sha(PERSISTED)
    if variant == 3:
        # every trim (and update) change shares its container with a change of an earlier category:
        # a later category must not be dropped because it "adds nothing new" to the containers already edited
        one = [
            ("create_eq", "assert 5 == snapshot()", "eq", None, ["5"]),
            ("mixed_in", "for x in (2, 1):\n        assert x in snapshot([2, 3])", "in", "[2, 3]", ["2", "1"]),
            ("clean_eq", "assert double(3) == snapshot(6)", "eq", "6", ["6"]),
            ("ext_ref", f"assert outsource('persisted data') == snapshot(external('{ref[:12]}*.txt'))", None, None, None),
        ]
        two = [
            ("mixed_sub", "s = snapshot({'a': 1, 'unused': 2 })\n    assert s['a'] == 1\n    assert s['b'] == 5", "getitem", "{'a': 1, 'unused': 2 }", [("'a'", "1"), ("'b'", "5")]),
            ("create_ext", "assert outsource('new text') == snapshot()", None, None, None),
            ("xfail_fix", "assert 1 == snapshot(2)", "xfail", "2", ["1"]),
        ]
        return one, two
    if variant == 2:
        one = [
            ("create_eq", "assert 5 == snapshot()", "eq", None, ["5"]),
            ("fix_eq", "assert 5 == snapshot(4)", "eq", "4", ["5"]),
            ("update_eq", "assert 5 == snapshot(2+3)", "eq", "2+3", ["5"]),
            ("clean_eq", "assert double(3) == snapshot(6)", "eq", "6", ["6"]),
            ("ext_ref", f"assert outsource('persisted data') == snapshot(external('{ref[:12]}*.txt'))", None, None, None),
        ]
        two = [
            ("fix_ge", "assert 5 >= snapshot(8)", "ge", "8", ["5"]),
            ("fix_ge_unordered", "assert frozenset({1, 3}) >= snapshot(frozenset({2}))", "ge", "frozenset({2})", ["frozenset({1, 3})"]),
            ("create_ext", "assert outsource('new text') == snapshot()", None, None, None),
            ("xfail_fix", "assert 1 == snapshot(2)", "xfail", "2", ["1"]),
            ("update_list", "assert [1, 2] == snapshot([1, 1+1])", "eq", "[1, 1+1]", ["[1, 2]"]),
        ]
        return one, two
    one = [
        ("create_eq", "assert 5 == snapshot()", "eq", None, ["5"]),
        ("fix_eq", "assert 5 == snapshot(4)", "eq", "4", ["5"]),
        ("trim_le", "assert 5 <= snapshot(9)", "le", "9", ["5"]),
        ("fix_le_unordered", "assert {1, 3} <= snapshot({1, 2})", "le", "{1, 2}", ["{1, 3}"]),  # fails, yet the bound is neither too low nor too high: still a fix, never a trim
        ("update_eq", "assert 5 == snapshot(2+3)", "eq", "2+3", ["5"]),
        ("clean_eq", "assert double(3) == snapshot(6)", "eq", "6", ["6"]),
        ("mixed_in", "for x in (2, 1):\n        assert x in snapshot([2, 3])", "in", "[2, 3]", ["2", "1"]),
        ("ext_ref", f"assert outsource('persisted data') == snapshot(external('{ref[:12]}*.txt'))", None, None, None),
    ]
    two = [
        ("trim_in", "assert 5 in snapshot([5, 7])", "in", "[5, 7]", ["5"]),
        ("fix_ge", "assert 5 >= snapshot(8)", "ge", "8", ["5"]),
        ("mixed_sub", "s = snapshot({'a': 1, 'unused': 2 })\n    assert s['a'] == 1\n    assert s['b'] == 5", "getitem", "{'a': 1, 'unused': 2 }", [("'a'", "1"), ("'b'", "5")]),  # blank before the brace: create's insert and trim's delete overlap when applied one after the other
        ("create_ext", "assert outsource('new text') == snapshot()", None, None, None),
        ("xfail_fix", "assert 1 == snapshot(2)", "xfail", "2", ["1"]),
        ("xfail_false_fix", "assert 1 == snapshot(3)", "eq", "3", ["1"]),
        ("update_list", "assert [1, 2] == snapshot([1, 1+1])" if variant else "assert 'ab' == snapshot('a' + 'b')", "eq", "[1, 1+1]" if variant else "'a' + 'b'", ["[1, 2]" if variant else "'ab'"]),
    ]
    return one, two


def build_files(variant, extra_pyproject=None):
    one, two = sites_for(variant)
    head = "import pytest\nfrom inline_snapshot import snapshot, outsource, external\nfrom helper import double\n\n"
    f1 = head + "".join(f"def test_{n}():\n    {src}\n\n" for n, src, *_ in one)
    f2 = head
    for n, src, op, *_ in two:
        if n == "xfail_fix":
            f2 += "@pytest.mark.xfail\n"
        if n == "xfail_false_fix":
            f2 += "@pytest.mark.xfail(False, reason='not expected to fail')\n"
        f2 += f"def test_{n}():\n    {src}\n\n"
    files = {"test_one.py": f1, "test_two.py": f2, "helper.py": HELPER}
    # xfail marks that a test inherits (module-level pytestmark, mark on the class): every test of these two files is
    # marked xfail, so no session may change them (seeded round 6)
    files["test_three.py"] = head + "pytestmark = pytest.mark.xfail(reason='whole module')\n\n\ndef test_module_mark_fix():\n    assert 1 == snapshot(2)\n\n\ndef test_module_mark_create():\n    assert 'x' == snapshot()\n"
    files["test_four.py"] = head + "@pytest.mark.xfail\nclass TestMarked:\n    def test_class_mark_fix(self):\n        assert 1 == snapshot(2)\n\n    def test_class_mark_create(self):\n        assert 'x' == snapshot()\n"
    files[f".inline-snapshot/external/{sha(PERSISTED)}.txt"] = PERSISTED
    files[f".inline-snapshot/external/{sha(UNUSED)}.txt"] = UNUSED
    files[".inline-snapshot/external/.gitignore"] = "# ignore all snapshots which are not referred in the source\n*-new.*\n"
    if extra_pyproject is not None:
        files["pyproject.toml"] = extra_pyproject
    return files, one, two


# ---------------------------------------------------------------------------------------
# approval model (docs/pytest.md, docs/configuration.md)


def approval_model(cfg):
    """cfg: cli (list|None), shortcut (str|None), env_flags (list|None), py_default (list|None), py_tui (list|None),
    shortcuts (dict|None = built-in), has_pyproject, tty, ci (name|None), pycharm, xdist (None|0|2), answers (list of bool)"""
    builtin = {"fix": ["create", "fix"], "review": ["review"]}
    shortcuts = cfg.get("shortcuts") if cfg.get("shortcuts") is not None else builtin
    cli = cfg.get("cli")
    if cfg.get("shortcut"):
        if not cfg["has_pyproject"] or cfg["shortcut"] not in shortcuts:
            return {"mode": "usage_error"}
        cli = list(shortcuts[cfg["shortcut"]])
    xdist = cfg.get("xdist") not in (None, 0)
    if cli is not None:
        flags = {f for f in cli if f}
        if xdist and flags - {"disable"}:
            return {"mode": "usage_error"}
    elif cfg.get("env_flags") is not None:
        flags = set(cfg["env_flags"])
    else:
        if cfg["tty"]:
            flags = set(cfg["py_tui"] if cfg.get("py_tui") is not None else ["create", "review"])
        else:
            flags = set(cfg["py_default"] if cfg.get("py_default") is not None else ["report"])
    known = set(CATS) | {"disable", "review", "report", "short-report"}
    if flags - known:
        return {"mode": "usage_error"}
    if "disable" in flags and flags != {"disable"}:
        return {"mode": "usage_error"}
    ci = cfg.get("ci") and not cfg.get("pycharm")
    if xdist or ci or "disable" in flags:
        return {"mode": "inactive", "flags": sorted(flags)}
    if "short-report" in flags:
        return {"mode": "active", "A": set(), "flags": sorted(flags)}
    A = flags & set(CATS)
    if "review" in flags:
        answers = list(cfg.get("answers") or [])
        for cat in CATS:  # prompts in the order create, fix, trim, update for categories with a visible diff
            if cat in flags or cat not in cfg.get("pending", CATS):
                continue
            if answers and answers.pop(0):
                A.add(cat)
    return {"mode": "active", "A": A, "flags": sorted(flags), "review": "review" in flags}


def gen_config(rng):
    cfg = {"cli": None, "shortcut": None, "env_flags": None, "py_default": None, "py_tui": None, "shortcuts": None, "has_pyproject": False, "tty": False, "ci": None, "pycharm": False, "xdist": None, "answers": [rng.random() < 0.5 for _ in range(4)]}
    cats = [c for c in CATS if rng.random() < 0.45]
    mode = rng.choice([None, None, "report", "review", "short-report", "disable"])

    def flagset():
        f = list(cats)
        if mode == "disable":
            return ["disable"] if rng.random() < 0.8 else ["disable"] + f
        if mode:
            f.append(mode)
        rng.shuffle(f)
        return f

    source = rng.choice(["cli", "cli", "env", "pyproject", "tui", "shortcut_fix", "shortcut_review", "custom_shortcut", "none", "conflict"])
    cfg["source"] = source
    if source == "cli":
        cfg["cli"] = flagset()
    elif source == "env":
        # an empty value (INLINE_SNAPSHOT_DEFAULT_FLAGS="") is not a flag list: the plugin answers with a usage
        # error for the flag '' - nothing is written, so it is irrelevant for this property and not generated
        cfg["env_flags"] = flagset() or None
    elif source == "pyproject":
        cfg["py_default"] = flagset()
        cfg["has_pyproject"] = True
    elif source == "tui":
        cfg["tty"] = True
        cfg["has_pyproject"] = rng.random() < 0.7
        if cfg["has_pyproject"]:
            cfg["py_tui"] = flagset()
            cfg["py_default"] = ["fix"]  # must be ignored on a terminal
    elif source == "shortcut_fix":
        cfg["shortcut"] = "fix"
        cfg["has_pyproject"] = rng.random() < 0.8
    elif source == "shortcut_review":
        cfg["shortcut"] = "review"
        cfg["has_pyproject"] = True
    elif source == "custom_shortcut":
        cfg["has_pyproject"] = True
        cfg["shortcuts"] = {"upd": ["update", "trim"], "nosnap": ["disable"]}
        cfg["shortcut"] = rng.choice(["upd", "nosnap", "fix"])  # `fix` no longer exists
    elif source == "conflict":
        cfg["cli"] = flagset()
        cfg["env_flags"] = rng.choice([["create", "fix", "trim", "update"], ["disable"], ["report"]])
        cfg["py_default"] = rng.choice([["fix"], ["trim", "update"]])
        cfg["has_pyproject"] = True
        if rng.random() < 0.3:
            cfg["cli"] = None  # then env must win over pyproject
    envk = rng.choice(["plain", "plain", "plain", "ci", "ci_pycharm", "n2", "n0"])
    cfg["envk"] = envk
    # pytest started in another directory with the project as path argument (shortcut options are looked up in the
    # invocation directory, so configurations that use one stay in the project root)
    cfg["invocation"] = "root"
    if not cfg["shortcut"]:
        r = rng.random()
        cfg["invocation"] = "other-directory" if r < 0.15 else "monorepo" if r < 0.35 else "root"
    if envk == "ci":
        cfg["ci"] = rng.choice(CI_VARS)
    elif envk == "ci_pycharm":
        cfg["ci"] = "TEAMCITY_VERSION"
        cfg["pycharm"] = True
    elif envk == "n2":
        cfg["xdist"] = 2
    elif envk == "n0":
        cfg["xdist"] = 0
    if (cfg["cli"] and "review" in cfg["cli"]) or cfg["shortcut"] == "review" or (cfg["env_flags"] and "review" in cfg["env_flags"]) or (cfg["py_default"] and "review" in cfg["py_default"]) or cfg["tty"]:
        cfg["tty"] = True if cfg["tty"] or rng.random() < 0.8 else False
    return cfg


def session_inputs(cfg):
    args, env = [], {}
    if cfg["cli"] is not None:
        args.append("--inline-snapshot=" + ",".join(cfg["cli"]))
    if cfg["shortcut"]:
        args.append("--" + cfg["shortcut"])
    if cfg["env_flags"] is not None:
        env["INLINE_SNAPSHOT_DEFAULT_FLAGS"] = ",".join(cfg["env_flags"])
    if cfg["tty"]:
        env["FORCE_COLOR"] = "true"
    if cfg["ci"]:
        env[cfg["ci"]] = "1"
    if cfg["pycharm"]:
        env["PYCHARM_HOSTED"] = "1"
    if cfg["xdist"] is not None:
        args += ["-n", str(cfg["xdist"])]
    pp = None
    if cfg["has_pyproject"]:
        lines = ["[tool.inline-snapshot]"]
        if cfg["py_default"] is not None:
            lines.append("default-flags=[" + ", ".join(f'"{f}"' for f in cfg["py_default"]) + "]")
        if cfg["py_tui"] is not None:
            lines.append("default-flags-tui=[" + ", ".join(f'"{f}"' for f in cfg["py_tui"]) + "]")
        if cfg["shortcuts"] is not None:
            lines.append("[tool.inline-snapshot.shortcuts]")
            for k, v in cfg["shortcuts"].items():
                lines.append(f"{k}=[" + ", ".join(f'"{f}"' for f in v) + "]")
        pp = "\n".join(lines) + "\n"
    stdin = "".join("y\n" if a else "n\n" for a in cfg["answers"]).encode()
    return args, env, pp, stdin


def check_session(cfg, variant, out, C):
    args, env, pp, stdin = session_inputs(cfg)
    files, one, two = build_files(variant, pp)
    cfg = dict(cfg, pending=[c for c in CATS if c != "trim"] if variant == 2 else ["create", "fix", "trim"] if variant == 3 else CATS)
    exp = approval_model(cfg)
    mono = cfg.get("invocation") == "monorepo"
    if mono:
        # the project lives in pkg/ (with its own pyproject.toml) inside a repository whose root has another
        # pyproject.toml with other default flags; pytest is started in the repository root as `pytest pkg`:
        # the project's configuration counts, not the one of the directory pytest was started in
        foreign = ["report"] if exp.get("mode") == "active" and exp.get("A") else ["create", "fix", "trim", "update"]
        files = {"pkg/" + k: v for k, v in files.items()}
        files.setdefault("pkg/pyproject.toml", "[tool.inline-snapshot]\n")
        files["pyproject.toml"] = "[tool.inline-snapshot]\ndefault-flags=[" + ", ".join(f'"{f}"' for f in foreign) + "]\n"
        C["sessions_monorepo_layout"] = C.get("sessions_monorepo_layout", 0) + 1
    proj = session.Project(files, with_vp=False)
    try:
        if mono:
            args = args + ["pkg"]
            r = session.run_session(proj, args, env=env, stdin=stdin, timeout=180)
            strip = lambda d: {k[4:]: v for k, v in d.items() if k.startswith("pkg/")}  # noqa
            r.before, r.after = strip(r.before), strip(r.after)
            for a in r.audit:
                for key in ("path", "dst", "src"):
                    if isinstance(a.get(key), str) and a[key].startswith("pkg/"):
                        a[key] = a[key][4:]
        elif cfg.get("invocation") == "other-directory":
            args = args + ["../.."]
            C["sessions_started_in_other_directory"] = C.get("sessions_started_in_other_directory", 0) + 1
            r = session.run_session(proj, args, env=env, stdin=stdin, timeout=180, cwd_sub="started/elsewhere")
        else:
            r = session.run_session(proj, args, env=env, stdin=stdin, timeout=180)
    finally:
        proj.close()
    C["sessions"] += 1
    wit = {"files": {k: (v.decode() if isinstance(v, bytes) else v) for k, v in files.items()}, "args": args, "cwd_sub": "started/elsewhere" if cfg.get("invocation") == "other-directory" else None, "env": env, "stdin": stdin.decode(), "config": cfg, "model": {k: (sorted(v) if isinstance(v, set) else v) for k, v in exp.items()}}
    base = {"config": {k: v for k, v in cfg.items() if v not in (None, False, [])}, "model": wit["model"], "exit": r.exit}
    if r.timeout:
        out["inconclusive"].append(f"session timeout: {args} {env}")
        return
    if any(a["kind"] == "sessionfinish_exception" for a in r.audit):
        C["session_exceptions"] += 1
        out["violations"].append({"kind": "session-end-raised", "detail": {**base, "events": [a for a in r.audit if a["kind"] == "sessionfinish_exception"], "stderr": r.stderr[-600:]}, "witness": wit, "finding": None})
        return
    protected = [k for k in r.before if k.endswith(".py") or (k.startswith(".inline-snapshot/external/") and "-new" not in k and not k.endswith(".gitignore"))]
    sig_mode = exp["mode"] if exp["mode"] != "active" else ("active:" + ("+".join(sorted(exp["A"])) or "nothing"))
    out["signatures"].add(f"{sig_mode}/{cfg['source']}/{cfg['envk']}/{'tty' if cfg['tty'] else 'notty'}" + ("/" + cfg["invocation"] if cfg.get("invocation", "root") != "root" else ""))
    C["modes"][exp["mode"]] = C["modes"].get(exp["mode"], 0) + 1
    out["evaluations"] += 1

    def nothing_written(why):
        changed = [k for k in protected if r.before.get(k) != r.after.get(k)]
        C["nothing_written_checks"] += 1
        if changed:
            out["violations"].append({"kind": "file-modified-without-approval", "detail": {**base, "why_nothing_expected": why, "changed": changed, "diff": _diff(r, changed[0])}, "witness": wit, "finding": None})
        evs = [a for a in r.audit if a["kind"] in ("open_w", "rename", "remove", "truncate") and (a.get("path") in protected or a.get("dst") in protected or a.get("src") in protected)]
        C["audit_events_seen"] += len(r.audit)
        if evs:
            out["violations"].append({"kind": "write-event-on-protected-file-without-approval", "detail": {**base, "why_nothing_expected": why, "events": evs[:5]}, "witness": wit, "finding": None})

    if exp["mode"] == "usage_error":
        if r.exit != 4:
            out["violations"].append({"kind": "expected-usage-error", "detail": {**base, "stderr": r.stderr[-400:], "stdout": r.stdout[-300:]}, "witness": wit, "finding": None})
        nothing_written("usage error")
        return
    if r.exit == 4:
        out["violations"].append({"kind": "unexpected-usage-error", "detail": {**base, "stderr": r.stderr[-600:]}, "witness": wit, "finding": None})
        return
    if exp["mode"] == "inactive":
        nothing_written("inactive session (disable / CI / xdist)")
        return
    A = exp["A"]
    if not A:
        nothing_written("active session, nothing approved")
        return
    C["approved_sessions"] += 1
    ns = inproc.Namespace("from inline_snapshot import snapshot, outsource, external\n")
    try:
        for fname, sites in (("test_one.py", one), ("test_two.py", two)):
            new = r.after[fname].decode()
            try:
                new_args, _ = program.outer_snapshot_args(new)
            except SyntaxError as e:
                out["violations"].append({"kind": "unparsable", "detail": {**base, "file": fname, "error": str(e)}, "witness": wit, "finding": None})
                continue
            old_args, _ = program.outer_snapshot_args(r.before[fname].decode())
            if len(new_args) != len(old_args) or len(old_args) != len(sites):
                out["violations"].append({"kind": "site-count-changed", "detail": {**base, "file": fname}, "witness": wit, "finding": None})
                continue
            for (name, src, op, prev, obs), oa, na in zip(sites, old_args, new_args):
                C["sites_checked"] += 1
                if op == "xfail":
                    if oa != na:
                        out["violations"].append({"kind": "xfail-test-snapshot-rewritten", "detail": {**base, "site": name, "old": oa, "new": na}, "witness": wit, "finding": None})
                    continue
                if name == "ext_ref":
                    if oa != na:
                        out["violations"].append({"kind": "clean-site-rewritten", "detail": {**base, "site": name, "old": oa, "new": na}, "witness": wit, "finding": None})
                    continue
                if name == "create_ext":
                    want_created = "create" in A
                    if (na is not None) != want_created:
                        out["violations"].append({"kind": "approved-change-not-applied" if want_created else "change-applied-without-approval", "detail": {**base, "site": name, "new": na}, "witness": wit, "finding": None})
                    newname = ".inline-snapshot/external/" + sha(b"new text") + ".txt"
                    if (newname in r.after) != want_created:
                        out["violations"].append({"kind": "external-persisted-iff-create-approved-violated", "detail": {**base, "persisted": newname in r.after, "storage": sorted(k for k in r.after if "external/" in k)}, "witness": wit, "finding": None})
                    continue
                if op == "getitem":
                    O = [(ns.eval(k), ns.eval(v)) for k, v in obs]
                else:
                    O = [ns.eval(o) for o in obs]
                p = models.MISSING if prev is None else ns.eval(prev)
                m = models.SiteModel(op, p, O, "eq")
                pend = m.pending() | ({"update"} if name.startswith("update") else set())
                if not (pend & A):
                    if oa != na:
                        out["violations"].append({"kind": "change-applied-without-approval", "detail": {**base, "site": name, "pending": sorted(pend), "old": oa, "new": na}, "witness": wit, "finding": None})
                    continue
                want = m.after(A)
                got = models.MISSING if na is None else ns.eval(na)
                if not models.same_value(m.op, want, got):
                    out["violations"].append({"kind": "approved-change-not-applied-exactly", "detail": {**base, "site": name, "pending": sorted(pend), "expected": repr(want) if want is not models.MISSING else "<empty>", "old": oa, "new": na}, "witness": wit, "finding": None})
                if name.startswith("update") and "update" in A and na == oa:
                    out["violations"].append({"kind": "approved-change-not-applied", "detail": {**base, "site": name, "old": oa, "new": na}, "witness": wit, "finding": None})
    finally:
        ns.close()
    for fname in ("test_three.py", "test_four.py"):
        C["inherited_xfail_files_checked"] = C.get("inherited_xfail_files_checked", 0) + 1
        if r.before[fname] != r.after.get(fname):
            out["violations"].append({"kind": "xfail-test-snapshot-rewritten", "detail": {**base, "site": fname + " (xfail mark inherited from the module / the class)", "diff": _diff(r, fname)}, "witness": wit, "finding": None})
    # helper file and persisted externals
    if r.before["helper.py"] != r.after.get("helper.py"):
        out["violations"].append({"kind": "file-modified-without-approval", "detail": {**base, "changed": ["helper.py"]}, "witness": wit, "finding": None})
    ref = ".inline-snapshot/external/" + sha(PERSISTED) + ".txt"
    unused = ".inline-snapshot/external/" + sha(UNUSED) + ".txt"
    if r.after.get(ref) != PERSISTED:
        out["violations"].append({"kind": "referenced-external-removed-or-changed", "detail": base, "witness": wit, "finding": None})
    C["unused_external_checks"] += 1
    if ("trim" in A) != (unused not in r.after):
        out["violations"].append({"kind": "unused-external-removed-iff-trim-approved-violated", "detail": {**base, "removed": unused not in r.after, "trim_approved": "trim" in A}, "witness": wit, "finding": None})


def _diff(r, name):
    import difflib

    a = r.before.get(name, b"").decode("utf-8", "replace").splitlines()
    b = r.after.get(name, b"").decode("utf-8", "replace").splitlines()
    return "\n".join(difflib.unified_diff(a, b, lineterm="", n=0))[:1200]


FIXED_CONFIGS = [
    # the nothing-approved kinds named by the statement, each with pending changes
    dict(cli=None, source="none", envk="plain"),
    dict(cli=["report"], source="cli", envk="plain"),
    dict(cli=["short-report", "create", "fix", "trim", "update"], source="cli", envk="plain"),
    dict(cli=["review"], source="cli", envk="plain", tty=True, answers=[False, False, False, False]),
    dict(cli=["disable"], source="cli", envk="plain"),
    dict(cli=None, env_flags=["create", "fix", "trim", "update"], source="env", envk="ci", ci="CI"),
    dict(cli=None, env_flags=["create", "fix", "trim", "update"], source="env", envk="n2", xdist=2),
    dict(cli=None, py_default=["create", "fix", "trim", "update"], has_pyproject=True, source="pyproject", envk="n2", xdist=2),
    dict(cli=["create", "fix", "trim", "update"], source="cli", envk="plain"),
    dict(cli=["review"], source="cli", envk="plain", tty=True, answers=[True, False, True, False]),
    dict(cli=["review", "fix"], source="cli", envk="plain", tty=True, answers=[False, True, False, False]),
    dict(cli=["fix", "report"], source="cli", envk="plain"),
    dict(cli=None, source="tui", tty=True, envk="plain", answers=[False, False, False, False]),
    # started in another directory
    dict(cli=["create", "fix", "trim", "update"], source="cli", envk="plain", invocation="other-directory"),
    dict(cli=["fix"], source="cli", envk="plain", invocation="other-directory"),
    dict(cli=["report"], source="cli", envk="plain", invocation="other-directory"),
    dict(cli=["review"], source="cli", envk="plain", tty=True, answers=[True, True, False, False], invocation="other-directory"),
    dict(cli=None, py_default=["create", "fix"], has_pyproject=True, source="pyproject", envk="plain", invocation="other-directory"),
    # project inside a repository with a foreign pyproject.toml in the start directory
    dict(cli=None, py_default=["report"], has_pyproject=True, source="pyproject", envk="plain", invocation="monorepo"),
    dict(cli=None, py_default=["fix"], has_pyproject=True, source="pyproject", envk="plain", invocation="monorepo"),
    dict(cli=None, source="none", envk="plain", invocation="monorepo"),
    dict(cli=None, py_default=["create", "fix", "trim", "update"], has_pyproject=True, source="pyproject", envk="plain", invocation="monorepo"),
    dict(cli=["trim"], source="cli", envk="plain", invocation="monorepo"),
]


FIXED_CONFIGS += [dict(cli=["create", "fix", "trim", "update"], source="cli", envk="ci", ci=v) for v in CI_VARS]
# review sessions in which no trim question is asked (variant 2 has no trim-pending snapshot): unused externals must stay
FIXED_NOTRIM = [
    dict(cli=["review"], source="cli", envk="plain", tty=True, answers=[False, False, False, False]),
    dict(cli=["review"], source="cli", envk="plain", tty=True, answers=[True, True, True, True]),
    dict(cli=None, source="tui", tty=True, envk="plain", answers=[False, True, False, False]),
    dict(cli=["review", "create"], source="cli", envk="plain", tty=True, answers=[False, False, False, False]),
    dict(cli=["trim"], source="cli", envk="plain"),
    dict(cli=["report", "fix"], source="cli", envk="plain"),
]
FIXED_CONFIGS += [dict(cli=None, env_flags=["create", "fix", "trim", "update"], source="env", envk="ci", ci=v) for v in CI_VARS[::3]]


def run_shard(args):
    tier = args.tier
    nsessions = {"quick": 6, "thorough": 150}[tier]
    C = {"sessions": 0, "approved_sessions": 0, "nothing_written_checks": 0, "sites_checked": 0, "audit_events_seen": 0, "session_exceptions": 0, "unused_external_checks": 0, "modes": {}}
    out = {"evaluations": 0, "signatures": set(), "samples": [], "violations": [], "counters": C, "inconclusive": []}
    todo = []
    base = {"cli": None, "shortcut": None, "env_flags": None, "py_default": None, "py_tui": None, "shortcuts": None, "has_pyproject": False, "tty": False, "ci": None, "pycharm": False, "xdist": None, "answers": [False] * 4}
    for i, fc in enumerate(FIXED_CONFIGS):
        if i % args.nshards == args.shard:
            todo.append(dict(base, **fc))
    for c in range(nsessions):
        rng = random.Random(f"{args.seed}/{PROP}/{args.shard}/{c}")
        todo.append(gen_config(rng))
    for i, fc in enumerate(FIXED_NOTRIM):
        if (i + 7) % args.nshards == args.shard:
            check_session(dict(base, **fc), variant=2, out=out, C=C)
            C["no_trim_question_sessions"] = C.get("no_trim_question_sessions", 0) + 1
    SHARED = [
        dict(cli=["create", "trim"], source="cli", envk="plain"),
        dict(cli=["fix", "trim"], source="cli", envk="plain"),
        dict(cli=["create", "fix", "trim", "update"], source="cli", envk="plain"),
        dict(cli=["review"], source="cli", envk="plain", tty=True, answers=[True, True, True, True]),
    ]
    for i, fc in enumerate(SHARED):
        if (i + 11) % args.nshards == args.shard:
            check_session(dict(base, **fc), variant=3, out=out, C=C)
            C["shared_container_sessions"] = C.get("shared_container_sessions", 0) + 1
    for n, cfg in enumerate(todo):
        check_session(cfg, variant=n % 4, out=out, C=C)
        if len(out["samples"]) < 2:
            a, e, pp, si = session_inputs(cfg)
            out["samples"].append({"args": a, "env": e, "pyproject": pp, "stdin": si.decode(), "model": str(approval_model(cfg))})
    out["signatures"] = sorted(out["signatures"])
    return out


def replay(data):
    w = data["witness"]
    proj = session.Project({k: v for k, v in w["files"].items()}, with_vp=False)
    r = session.run_session(proj, w["args"], env=w["env"], stdin=w["stdin"].encode(), cwd_sub=w.get("cwd_sub"))
    proj.close()
    print("exit", r.exit, "changed", r.changed)
    print(r.stdout[-3000:])
    print(r.stderr[-1000:])
    return 0


def main(tier, seed):
    out = common.Outcome(PROP, tier, seed)
    for sh in common.run_shards(PROP, tier, seed):
        out.merge(sh)
    return common.finish(out, RULE, ASSUMPTIONS, min_evals=50, min_distinct=20, required_counters=("sessions", "approved_sessions", "nothing_written_checks", "sites_checked", "audit_events_seen"))
