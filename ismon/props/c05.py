"""C05 - each category means what the documentation says.

Recording-style programs; per site a previous value (or none), an operation and an
observation sequence; the same program is run once per approved subset F; monitors read
the per-site change flags at quiescence and the value each argument evaluates to
afterwards; the oracle is the reference algebra in ismon.models (written from the docs).
"""

from __future__ import annotations

import ast
import itertools
import random

from .. import common
from .. import gen
from .. import inproc
from .. import models
from .. import program

PROP = "C05"
CATS = ["create", "fix", "trim", "update"]
ALL_F = [frozenset(c) for n in range(5) for c in itertools.combinations(CATS, n)]
RULE = (
    "recording-style files of 5-9 sites; per site: previous value p (canonical or hostile-layout text) or none x op in {==, reflected ==, <=, >=, in, [k] with child op} x "
    "observation sequence of length 1-6 (loops; equal / near / unrelated values; for bounds one totally ordered group); each file is run once per approved subset F "
    "(quick: 6 of the 16 subsets per file incl. {}, all, {update}; thorough: all 16). case = (site, F); non-trivial = site has at least one pending category; "
    "distinct = (op, pending categories by model, F, previous-value shape)."
)
ASSUMPTIONS = [
    "same value = Python ==; `in` lists compared as collections without order (the docs promise a list of all tested values, not an order)",
    "sites have no user-controlled parts and each == site sees one value (self-contradicting tests are exempt by the statement)",
]


def make_site(rng, i, depth):
    op = rng.choice(["eq", "eq", "req", "le", "ge", "in", "in", "getitem", "getitem"])
    s = {"id": i, "op": op, "place": rng.choice(["loop", "loop", "helper", "module"])}
    missing = rng.random() < 0.15
    noncanon = rng.random() < 0.4

    def text(t):
        return gen.layout(t, rng, handwritten=0.15) if noncanon else gen.expr(t)

    if rng.random() < 0.06:
        # evaluated (module level) but never compared in this session - e.g. the snapshot of a deselected test:
        # nothing is pending, only `update` may touch it and must not change its value
        p = c02_old_tree(rng, depth)
        s.update(op="eq", place="module", old=gen.layout(p, rng, handwritten=0.5), obs=[], sig="never-compared/" + gen.kind_sig(p, 1))
        return s
    if op in ("eq", "req"):
        p = c02_old_tree(rng, depth)
        r = rng.random()
        v = p if r < 0.3 else (gen.near(p, rng) if r < 0.8 else gen.gen_value(rng, depth))
        s["old"] = None if missing else text(p)
        s["obs"] = [gen.expr(v)] * rng.randint(1, 3)
        s["sig"] = gen.kind_sig(p, 1)
    elif op in ("le", "ge"):
        if rng.random() < 0.15:
            # partial order: the observed values form a chain, the previous value may be incomparable to them
            g, prev, chain = gen.gen_poset(rng, rng.randint(1, 4))
            ts = [prev] + chain
        else:
            g, ts = gen.gen_ordered(rng, rng.randint(2, 7))
        s["old"] = None if missing else text(ts[0])
        obs = ts[1:]
        if rng.random() < 0.3 and not g.startswith("poset"):
            obs = obs + [ts[0]]
            rng.shuffle(obs)
        s["obs"] = [gen.expr(t) for t in obs]
        s["sig"] = g
    elif op == "in":
        members = [c02_old_tree(rng, 1) for _ in range(rng.randint(0, 4))]
        tested = [t for t in members if rng.random() < 0.6] + [gen.gen_value(rng, 1) for _ in range(rng.randint(0, 2))]
        tested = tested * rng.choice([1, 1, 2]) or [gen.gen_value(rng, 1)]
        rng.shuffle(tested)
        s["old"] = None if missing else text(("list", tuple(members)))
        s["obs"] = [gen.expr(t) for t in tested[:6]]
        s["sig"] = f"in{len(members)}"
    else:
        child = rng.choice(["eq", "eq", "le", "ge", "in"])
        keys = gen._dedupe([gen.gen_leaf(rng, True, ("int", "str", "enum", "bool", "none")) for _ in range(rng.randint(1, 4))]) or [("int", 0)]
        old_items, obs = [], []
        for k in keys:
            r = rng.random()
            if child in ("le", "ge"):
                _, vals = gen.gen_ordered(rng, rng.randint(2, 3), "int")
                ov, xs = vals[0], vals[1:]
            elif child == "in":
                mem = [gen.gen_leaf(rng, False, ("int", "str")) for _ in range(rng.randint(0, 3))]
                ov = ("list", tuple(mem))
                xs = [m for m in mem if rng.random() < 0.5] + [gen.gen_leaf(rng, False, ("int", "str")) for _ in range(rng.randint(0, 1))]
                xs = xs or [("int", 1)]
            else:
                ov = c02_old_tree(rng, 1)
                xs = [ov if rng.random() < 0.5 else gen.near(ov, rng)]
            if r < 0.25:
                old_items.append((k, ov))  # never accessed
            elif r < 0.8:
                old_items.append((k, ov))
                if rng.random() < 0.15:
                    obs.append((gen.expr(k), "ACCESS_ONLY"))  # fetched (e.g. into a variable) but not compared in this run
                    s["access_only"] = True
                else:
                    obs += [(gen.expr(k), gen.expr(x)) for x in xs]
            else:
                obs += [(gen.expr(k), gen.expr(x)) for x in xs]  # key not in previous value
        if not obs:
            obs.append((gen.expr(keys[0]), "1"))
            if child == "in":
                pass
        rng.shuffle(obs) if child == "eq" else None
        s["child"] = child
        s["old"] = None if missing else text(("dict", tuple(old_items)))
        s["obs"] = obs
        s["sig"] = f"getitem:{child}:{len(old_items)}"
    s["missing"] = s["old"] is None
    return s


def c02_old_tree(rng, depth):
    from .c02 import old_tree

    return old_tree(rng, depth)


def eval_args(new_src, ns):
    """evaluate every outer snapshot argument of the rewritten module with plain Python"""
    args, calls = program.outer_snapshot_args(new_src)
    return [models.MISSING if a is None else ns.eval(a) for a in args]


class _ToKeywords(ast.NodeTransformer):
    def __init__(self):
        self.n = 0

    def visit_Call(self, node):
        self.generic_visit(node)
        if isinstance(node.func, ast.Name) and node.func.id in gen.CALL_FIELDS and node.args and not any(isinstance(a, ast.Starred) for a in node.args):
            names = gen.CALL_FIELDS[node.func.id][0]
            node.keywords = [ast.keyword(arg=names[i], value=a) for i, a in enumerate(node.args)] + node.keywords
            node.args = []
            self.n += 1
        return node


def positional_to_keywords(old_text):
    """(text with positional constructor arguments rewritten as keywords, number rewritten)"""
    tree = ast.parse(old_text.strip(), mode="eval")
    t = _ToKeywords()
    tree = t.visit(tree)
    return ast.unparse(ast.fix_missing_locations(tree)), t.n


def check_site(s, F, ns_values=None):
    """model-vs-real for a single-site file; returns list of disagreement kinds"""
    src, order = program.build([s], style="rec", tests=1)
    ns = inproc.Namespace()
    try:
        O = ns.eval(program.o_dict_text([s]))
        p = models.MISSING if s["old"] is None else ns.eval(s["old"])
        m = models.SiteModel(s["op"], p, list(O[s["id"]]), s.get("child", "eq"))
        res = inproc.run({"test_a.py": src}, F)
        if res.exec_exc or res.crashed() or not res.sites:
            return ["error"]
        got = set(res.sites[0].get("flags", [])) - {"update"}
        bad = []
        if got != m.pending():
            bad.append("categories")
        if ("fix" in got) != m.some_comparison_fails():
            bad.append("fix-iff")
        val = eval_args(res.files_after["test_a.py"].decode(), ns)[0]
        if not models.same_value(m.op, m.after(F), val):
            bad.append("value")
        return bad
    finally:
        ns.close()


def classify(s, F):
    """Known mechanism F13: positional constructor arguments of dataclass-like calls are
    converted to keyword arguments by changes flagged `fix` although the values are equal.
    Counterfactual: the same site with the positional arguments written as keywords agrees
    with the model, the original does not."""
    if s["old"] is None:
        return None
    # Known mechanism F17: defaultdict values that differ only in their default_factory are equal
    # for Python (`defaultdict(dict, {}) == defaultdict(list, {})`), but the factory argument is
    # compared on its own and the difference reported as `fix`.  Counterfactual: with every
    # default_factory neutralised (None) on both sides the site agrees with the model.
    import re

    # (the factory may be the only argument: `defaultdict(list)`)
    fac = re.compile(r"defaultdict\(\s*(list|int|dict|None)\s*(?=[,)])")
    if fac.search(s["old"]) and any(fac.search(str(o)) for o in (s["obs"] if s["op"] != "getitem" else [v for _, v in s["obs"]])):
        neutral = lambda t: fac.sub("defaultdict(None", t)  # noqa
        if s["op"] == "getitem":
            obs2 = [(k, neutral(v)) for k, v in s["obs"]]
        else:
            obs2 = [neutral(o) for o in s["obs"]]
        s3 = dict(s, old=neutral(s["old"]), obs=obs2, place="loop")
        if check_site(dict(s, place="loop"), F) and not check_site(s3, F):
            return "F17-defaultdict-factory-difference-flagged-fix"
    try:
        kw_text, n = positional_to_keywords(s["old"])
    except SyntaxError:
        return None
    if n == 0:
        return None
    s2 = dict(s, old=kw_text, place="loop")
    if check_site(dict(s, place="loop"), F) and not check_site(s2, F):
        return "F13-positional-args-to-keywords-flagged-fix"
    return None


def subsets_for(rng, tier):
    if tier == "thorough":
        return ALL_F
    fixed = [frozenset(), frozenset(CATS), frozenset({"update"})]
    rest = [f for f in ALL_F if f not in fixed]
    return fixed + rng.sample(rest, 3)


def run_shard(args):
    tier = args.tier
    ncases = {"quick": 22, "thorough": 500}[tier]
    C = {"files": 0, "runs": 0, "crashed": 0, "site_F_checked": 0, "pending_by_model": {}, "fix_iff_checked": 0, "update_only_checked": 0, "crash_kinds": {}}
    out = {"evaluations": 0, "signatures": set(), "samples": [], "violations": [], "counters": C, "inconclusive": []}

    def violation(kind, detail, files, F, site=None):
        fid = classify(site, F) if site is not None else None
        out["violations"].append({"kind": kind, "detail": detail, "witness": {"files": files, "flags": sorted(F)}, "finding": fid})

    for c in range(ncases):
        rng = random.Random(f"{args.seed}/{PROP}/{args.shard}/{c}")
        sites = [make_site(rng, i, 2) for i in range(rng.randint(5, 9))]
        if c == 0 and args.shard == 0:
            # the witnesses of the recorded findings are part of every run (KNOWN-FINDING lines are printed
            # for as long as the defects exist; a repaired defect simply stops producing them)
            sites = [
                {"id": 0, "op": "eq", "place": "loop", "old": "DC(-1, 2)", "obs": ["DC(a=-1, b=2)"], "sig": "F13-witness", "missing": False},
                {"id": 1, "op": "eq", "place": "loop", "old": "defaultdict(list, {})", "obs": ["defaultdict(dict, {})"], "sig": "F17-witness", "missing": False},
                {"id": 2, "op": "eq", "place": "loop", "old": "NT(1, 2)", "obs": ["NT(a=1, b=2)"], "sig": "F13-witness-nt", "missing": False},
                # sites whose only pending category is update (hand-written text of a value that holds and is tight)
                {"id": 3, "op": "le", "place": "loop", "old": "2+3", "obs": ["5", "4"], "sig": "update-only-le", "missing": False},
                {"id": 4, "op": "ge", "place": "loop", "old": "(\n7\n)", "obs": ["7", "9"], "sig": "update-only-ge", "missing": False},
                {"id": 5, "op": "eq", "place": "loop", "old": "[1, 1+1, 'a' 'b']", "obs": ["[1, 2, 'ab']"], "sig": "update-only-eq", "missing": False},
                {"id": 6, "op": "in", "place": "loop", "old": "[1+2, 4]", "obs": ["3", "4"], "sig": "update-only-in", "missing": False},
                {"id": 7, "op": "getitem", "child": "eq", "place": "loop", "old": "{'k': 1+1}", "obs": [("'k'", "2")], "sig": "update-only-getitem", "missing": False},
            ]
        src, order = program.build(sites, style="rec", tests=rng.randint(1, 3))
        files = {"test_a.py": src}
        by_id = {s["id"]: s for s in sites}
        _, calls = program.outer_snapshot_args(src)
        pos2site = {(cl.lineno, cl.col_offset): sid for cl, sid in zip(calls, order)}
        C["files"] += 1
        ns = inproc.Namespace()
        try:
            O = ns.eval(program.o_dict_text(sites))
            site_models = {}
            for s in sites:
                p = models.MISSING if s["old"] is None else ns.eval(s["old"])
                site_models[s["id"]] = models.SiteModel(s["op"], p, list(O[s["id"]]), s.get("child", "eq"))
        except Exception as e:
            out["inconclusive"].append(f"generated values do not evaluate: {e!r}")
            ns.close()
            continue
        for F in subsets_for(rng, tier):
            res = inproc.run(files, F)
            C["runs"] += 1
            if res.exec_exc:
                out["inconclusive"].append(f"generated module failed: {res.exec_exc}")
                break
            if res.crashed():
                C["crashed"] += 1
                k = str((res.collect_exc or res.apply_exc)[::2])
                C["crash_kinds"][k] = C["crash_kinds"].get(k, 0) + 1
                continue
            new = res.files_after["test_a.py"].decode("utf-8", "replace")
            try:
                values = eval_args(new, ns)
            except SyntaxError as e:
                violation("unparsable", {"error": str(e), "new": new, "F": sorted(F)}, files, F)
                continue
            except Exception as e:
                violation("argument-does-not-evaluate", {"error": repr(e), "new": new, "F": sorted(F)}, files, F)
                continue
            reported = {}
            for info in res.sites:
                sid = pos2site.get((info.get("lineno"), info.get("col")))
                if sid is not None:
                    reported[sid] = set(info.get("flags", []))
            for sid, val in zip(order, values):
                m = site_models[sid]
                s = by_id[sid]
                if sid not in reported:
                    continue  # site never evaluated (cannot happen in recording style)
                out["evaluations"] += 1
                C["site_F_checked"] += 1
                pend = m.pending()
                got = reported[sid] - {"update"}
                key = "+".join(sorted(pend)) or "none"
                C["pending_by_model"][key] = C["pending_by_model"].get(key, 0) + 1
                if str(s["sig"]).startswith("never-compared"):
                    C["never_compared_site_F_checked"] = C.get("never_compared_site_F_checked", 0) + 1
                    if "update" in reported[sid]:
                        C["never_compared_with_pending_update"] = C.get("never_compared_with_pending_update", 0) + 1
                        out["signatures"].add(f"never-compared/update-pending/{'+'.join(sorted(F)) or '-'}/{s['sig']}")
                if str(s["sig"]).startswith("poset"):
                    pk = "partial_order_bound_sites_" + key
                    C[pk] = C.get(pk, 0) + 1
                if pend:
                    out["signatures"].add(f"{s['op']}/{s.get('child','')}/{key}/{'+'.join(sorted(F)) or '-'}/{s['sig']}")
                base = {"site": sid, "op": s["op"], "child": s.get("child"), "old": s["old"], "obs": s["obs"], "F": sorted(F)}
                if got != pend:
                    violation("categories-differ-from-documentation", {**base, "reported": sorted(reported[sid]), "model": sorted(pend)}, files, F, s)
                C["fix_iff_checked"] += 1
                if ("fix" in got) != m.some_comparison_fails():
                    violation("fix-not-iff-comparison-fails", {**base, "reported": sorted(reported[sid]), "some_comparison_fails": m.some_comparison_fails()}, files, F, s)
                want = m.after(F)
                if not models.same_value(m.op, want, val):
                    kind = "value-after-run-differs-from-documentation"
                    if F <= {"update"} or not (F & pend):
                        kind = "value-changed-without-approved-value-changing-category"
                    violation(kind, {**base, "expected": repr(want)[:300] if want is not models.MISSING else "<empty>", "got": repr(val)[:300] if val is not models.MISSING else "<empty>", "new": new[-1500:]}, files, F, s)
                if F == {"update"}:
                    C["update_only_checked"] += 1
            if len(out["samples"]) < 2 and F == frozenset(CATS):
                out["samples"].append({"F": sorted(F), "before": src[:1000], "after": new[:1000]})
        ns.close()
    # ---- `in` snapshots whose previous argument is not a list display (set, tuple, variable): outside the documented
    # usage - the pinned tree ends such a session with an internal error, which is tolerated and counted here (C18's
    # scope excludes it) - but if the tool handles them, the categories must mean what they mean for lists
    if args.shard < 4:
        rng = random.Random(f"{args.seed}/{PROP}/non-list-in/{args.shard}")
        a, b, c2 = rng.sample(range(10, 99), 3)
        old = [f"{{{a}, {b}}}", f"({a}, {b})", f"frozenset([{a}, {b}])", f"[{a}, {b}][:]"][args.shard]
        site = {"id": 0, "op": "in", "old": old, "obs": [str(b), str(c2)], "place": "loop", "sig": "non-list-in"}
        src, order = program.build([site], style="rec", tests=1)
        m = models.SiteModel("in", [a, b], [b, c2])
        for F in [frozenset({"fix"}), frozenset({"trim"}), frozenset({"fix", "trim"}), frozenset()]:
            res = inproc.run({"test_a.py": src}, F)
            C["runs"] += 1
            if res.exec_exc or res.crashed():
                C["non_list_in_sessions_ending_in_internal_error(tolerated)"] = C.get("non_list_in_sessions_ending_in_internal_error(tolerated)", 0) + 1
                continue
            C["non_list_in_sessions_checked"] = C.get("non_list_in_sessions_checked", 0) + 1
            out["evaluations"] += 1
            got = set().union(*[set(i.get("flags", [])) for i in res.sites]) - {"update"}
            new = res.files_after["test_a.py"].decode()
            ns = inproc.Namespace()
            try:
                val = eval_args(new, ns)[0]
                val = list(val) if isinstance(val, (set, frozenset, tuple, list)) else val
            except Exception as e:
                val = repr(e)
            finally:
                ns.close()
            want = m.after(F)
            if got != m.pending() or not models.same_value("in", want, val):
                out["violations"].append({"kind": "non-list-in-snapshot-handled-against-the-category-rules", "detail": {"old": old, "obs": site["obs"], "F": sorted(F), "reported": sorted(got), "model": sorted(m.pending()), "expected_members": repr(want), "got": repr(val)}, "witness": {"files": {"test_a.py": src}, "flags": sorted(F)}, "finding": None})
    out["signatures"] = sorted(out["signatures"])
    return out


def replay(data):
    files = data["witness"]["files"]
    F = data["witness"]["flags"]
    res = inproc.run(files, F)
    print("flags", F, "crashed", res.crashed())
    print(res.files_after["test_a.py"].decode())
    for s in res.sites:
        print(s)
    return 0


def main(tier, seed):
    out = common.Outcome(PROP, tier, seed)
    for sh in common.run_shards(PROP, tier, seed):
        out.merge(sh)
    runs = out.counters.get("runs", 0)
    if runs and out.counters.get("crashed", 0) > 0.05 * runs:
        out.inconclusive.append(f"{out.counters['crashed']} of {runs} runs ended in an internal error (C18): {out.counters.get('crash_kinds')}")
    return common.finish(out, RULE, ASSUMPTIONS, min_evals=500, min_distinct=50, required_counters=("site_F_checked", "update_only_checked"))
