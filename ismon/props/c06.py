"""C06 - without approval, snapshot(x) behaves like x.

The same recording-style file is executed twice: in an active session without category
flags, and with inline-snapshot inactive (snapshot(v) is v); the two comparison logs must
agree position by position (result type, value, exception type).  Second-operator misuse
must raise TypeError; the inactive path must return the argument object itself.
"""

from __future__ import annotations

import itertools
import random

from .. import common
from .. import gen
from .. import inproc
from .. import program
from .c02 import old_tree

PROP = "C06"
RULE = (
    "recording-style files of 4-8 sites with a stored value v (hostile-layout text; Is(...) and inner snapshot(...) nested in v for == sites) each compared 1-4 times "
    "with operands equal to / one edit away from / unrelated to v through x==s, s==x, x<=s, x>=s, x in s, s[k]==x (child ops ==,<=,in); plus all 20 ordered pairs "
    "of two different operations on one snapshot (must raise TypeError) and identity probes (inactive snapshot(v) is v). case = one comparison; non-trivial = the plain "
    "comparison did not raise (in scope); distinct = (op, result, operand relation, stored-value shape)."
)
ASSUMPTIONS = [
    "scope of the statement: arguments evaluate to equal values each time, bounds over one totally ordered group, comparisons that raise on the plain value are skipped (counted)",
    "the inactive run is the default global state (active=False), i.e. what --inline-snapshot=disable / CI / xdist / xfail select; the real-session equivalence is sampled in the thorough tier",
]

OPS5 = ["eq", "le", "ge", "in", "getitem"]


def with_unmanaged(t, rng, depth=0):
    """render tree as text with some elements wrapped in Is(...) / snapshot(...)"""
    k, p = t
    if k in ("list", "tuple") and p and depth < 3:
        items = []
        for c in p:
            r = rng.random()
            txt = with_unmanaged(c, rng, depth + 1)
            if r < 0.25:
                txt = f"Is({txt})"
            elif r < 0.45 and c[0] not in ("ext",):
                txt = f"snapshot({gen.expr(c)})"
            items.append(txt)
        if k == "tuple":
            return "(" + ", ".join(items) + ("," if len(items) == 1 else "") + ")"
        return "[" + ", ".join(items) + "]"
    if k == "dict" and p and depth < 3:
        items = []
        for a, b in p:
            txt = with_unmanaged(b, rng, depth + 1)
            r = rng.random()
            if r < 0.25:
                txt = f"Is({txt})"
            elif r < 0.45:
                txt = f"snapshot({gen.expr(b)})"
            items.append(f"{gen.expr(a)}: {txt}")
        return "{" + ", ".join(items) + "}"
    return gen.expr(t)


def operands(v, rng, n):
    out, rel = [], []
    for _ in range(n):
        r = rng.random()
        if r < 0.45:
            out.append(v)
            rel.append("equal")
        elif r < 0.85:
            out.append(gen.near(v, rng))
            rel.append("near")
        else:
            out.append(gen.gen_value(rng, 2))
            rel.append("unrelated")
    return out, rel


def make_site(rng, i):
    op = rng.choice(["eq", "eq", "req", "le", "ge", "in", "getitem"])
    s = {"id": i, "op": op, "place": rng.choice(["loop", "loop", "helper", "module", "comp"])}
    n = rng.randint(1, 4)
    if op in ("eq", "req"):
        v = old_tree(rng, 3)
        xs, rel = operands(v, rng, n)
        nested = v[0] in ("list", "tuple", "dict") and rng.random() < 0.5
        s["old"] = with_unmanaged(v, rng) if nested else gen.layout(v, rng)
        s["obs"] = [gen.expr(x) for x in xs]
        s["sig"] = ("nested:" if nested else "") + gen.kind_sig(v, 1)
        s["rel"] = rel
    elif op in ("le", "ge"):
        g, ts = gen.gen_ordered(rng, n + 1)
        s["old"] = gen.layout(ts[0], rng)
        s["obs"] = [gen.expr(t) for t in ts[1:]] + ([gen.expr(ts[0])] if rng.random() < 0.4 else [])
        s["sig"] = g
        s["rel"] = ["ordered"] * len(s["obs"])
    elif op == "in":
        members = [old_tree(rng, 1) for _ in range(rng.randint(0, 4))]
        xs = [rng.choice(members) if members and rng.random() < 0.6 else gen.gen_value(rng, 1) for _ in range(n)]
        s["old"] = gen.layout(("list", tuple(members)), rng)
        s["obs"] = [gen.expr(x) for x in xs]
        s["sig"] = f"in{len(members)}"
        s["rel"] = ["member?"] * n
    else:
        child = rng.choice(["eq", "eq", "le", "in"])
        keys = gen._dedupe([gen.gen_leaf(rng, True, ("int", "str", "enum")) for _ in range(rng.randint(1, 3))]) or [("int", 0)]
        items, obs = [], []
        for k in keys:
            if child == "le":
                _, vals = gen.gen_ordered(rng, 3, "int")
                items.append((k, vals[0]))
                obs += [(gen.expr(k), gen.expr(x)) for x in vals[1:]]
            elif child == "in":
                mem = [gen.gen_leaf(rng, False, ("int", "str")) for _ in range(rng.randint(0, 3))]
                items.append((k, ("list", tuple(mem))))
                obs += [(gen.expr(k), gen.expr(rng.choice(mem) if mem and rng.random() < 0.5 else ("int", 99)))]
            else:
                ov = old_tree(rng, 1)
                items.append((k, ov))
                xs, _ = operands(ov, rng, rng.randint(1, 2))
                obs += [(gen.expr(k), gen.expr(xs[0]))] * len(xs)  # one value per == sub-snapshot
        s["child"] = child
        s["old"] = gen.layout(("dict", tuple(items)), rng)
        s["obs"] = obs
        s["sig"] = f"getitem:{child}"
        s["rel"] = ["key"] * len(obs)
        if s["place"] == "comp":
            s["place"] = "loop"
    return s


MISUSE_FIRST = {
    "eq": ("5", "5 == s"),
    "le": ("5", "3 <= s"),
    "ge": ("5", "7 >= s"),
    "in": ("[5]", "5 in s"),
    "getitem": ("{1: 5}", "s[1]"),
}
MISUSE_SECOND = {"eq": "5 == s", "le": "3 <= s", "ge": "7 >= s", "in": "5 in s", "getitem": "s[1]"}


def misuse_tests(rng, base_id):
    lines, expect = [], {}
    n = base_id
    pairs = [(a, b) for a in OPS5 for b in OPS5 if a != b]
    for a, b in pairs:
        v, first = MISUSE_FIRST[a]
        lines.append(f"def test_misuse_{a}_{b}():")
        lines.append(f"    s = snapshot({v})")
        lines.append(f"    rec({n}, lambda: {first})")
        lines.append(f"    rec({n + 1}, lambda: {MISUSE_SECOND[b]})")
        expect[n + 1] = (a, b)
        n += 2
    return "\n".join(lines) + "\n", expect, n


def identity_tests(base_id):
    lines = [
        "def test_identity():",
        "    for v in ([1, 2], {'a': 1}, 'text', (1,), DC(a=1), 5, None):",
        f"        rec({base_id}, lambda: snapshot(v) is v)",
    ]
    return "\n".join(lines) + "\n"


SIDE_EFFECT_TESTS = '''

import warnings as _w


def _noisy():
    _w.warn("old api", DeprecationWarning)


def test_zz_warning_shown_once_per_location():
    with _w.catch_warnings(record=True) as caught:
        _w.simplefilter("default")
        _noisy()
        assert [1, "a"] == snapshot([1, "a"])
        assert 5 <= snapshot(7)
        for _ in range(2):
            _noisy()
    assert len(caught) == 1


def test_zz_interpreter_state_untouched():
    import decimal, locale, os, random, sys

    def state():
        return (os.getcwd(), list(sys.path), dict(os.environ), random.getstate(), list(_w.filters), sys.getrecursionlimit(), locale.setlocale(locale.LC_ALL), decimal.getcontext().prec, sys.gettrace(), repr)

    before = state()
    assert {"k": [1, 2.5, "x"]} == snapshot({"k": [1, 2.5, "x"]})
    assert 3 in snapshot([3, 4])
    assert snapshot({"a": 1})["a"] == 1
    assert state() == before
'''


# (name, pytest arguments, environment, session is inactive)
REAL_MODES = [
    ("default", [], None, False),
    ("report", ["--inline-snapshot=report"], None, False),
    ("short-report", ["--inline-snapshot=short-report"], None, False),
    ("ci-variable", [], {"CI": "true"}, True),
    ("ci-github-with-flags-in-env", [], {"GITHUB_ACTIONS": "true", "INLINE_SNAPSHOT_DEFAULT_FLAGS": "report"}, True),
    ("xdist-one-worker", ["-n", "1"], None, True),
    ("xdist-two-workers", ["-n", "2"], None, True),
]


def run_shard(args):
    tier = args.tier
    ncases = {"quick": 60, "thorough": 2500}[tier]
    C = {"files": 0, "comparisons": 0, "in_scope": 0, "skipped_plain_raises": 0, "misuse_pairs": 0, "identity_probes": 0, "results": {}, "files_unchanged_checked": 0}
    out = {"evaluations": 0, "signatures": set(), "samples": [], "violations": [], "counters": C, "inconclusive": []}
    for c in range(ncases):
        rng = random.Random(f"{args.seed}/{PROP}/{args.shard}/{c}")
        sites = [make_site(rng, i) for i in range(rng.randint(4, 8))]
        src, order = program.build(sites, style="rec", tests=rng.randint(1, 3))
        mis_src, mis_expect, nid = misuse_tests(rng, 1000)
        src_active = src + "\n" + mis_src
        src_plain = src + "\n" + identity_tests(2000)
        C["files"] += 1
        res = inproc.run({"test_a.py": src_active}, ())
        if res.exec_exc:
            out["inconclusive"].append(f"generated module failed: {res.exec_exc}")
            continue
        plain_logs, _, exec_exc, _ = inproc.plain_run({"test_a.py": src_plain})
        if exec_exc:
            out["inconclusive"].append(f"generated module failed in plain mode: {exec_exc}")
            continue
        wit = {"files": {"test_a.py": src_active}, "flags": []}
        C["files_unchanged_checked"] += 1
        if res.files_after["test_a.py"] != res.files_before["test_a.py"]:
            out["violations"].append({"kind": "file-changed-without-flags", "detail": {}, "witness": wit, "finding": None})
        active = [e for e in res.logs["test_a.py"] if e[0] < 1000]
        plain = [e for e in plain_logs["test_a.py"] if e[0] < 1000]
        if len(active) != len(plain) or [e[0] for e in active] != [e[0] for e in plain]:
            out["violations"].append({"kind": "different-comparison-sequence", "detail": {"active": len(active), "plain": len(plain)}, "witness": wit, "finding": None})
            continue
        by_id = {s["id"]: s for s in sites}
        pos = {}
        for a, p in zip(active, plain):
            s = by_id[a[0]]
            j = pos.get(a[0], 0)
            pos[a[0]] = j + 1
            C["comparisons"] += 1
            if p[1] == "exc":
                C["skipped_plain_raises"] += 1
                continue
            C["in_scope"] += 1
            out["evaluations"] += 1
            rel = s["rel"][j] if j < len(s["rel"]) else "?"
            out["signatures"].add(f"{s['op']}/{s.get('child','')}/{p[3]}/{rel}/{s['sig']}")
            C["results"][str(p[3])] = C["results"].get(str(p[3]), 0) + 1
            if tuple(a[1:]) != tuple(p[1:]):
                out["violations"].append({"kind": "comparison-differs-from-plain-value", "detail": {"site": a[0], "op": s["op"], "old": s["old"], "obs": s["obs"], "position": j, "active": a, "plain": p}, "witness": wit, "finding": None})
        # misuse
        for e in res.logs["test_a.py"]:
            if e[0] in mis_expect:
                C["misuse_pairs"] += 1
                if not (e[1] == "exc" and e[2] == "TypeError"):
                    out["violations"].append({"kind": "second-operation-did-not-raise-TypeError", "detail": {"ops": mis_expect[e[0]], "event": e}, "witness": wit, "finding": None})
        for e in plain_logs["test_a.py"]:
            if e[0] == 2000:
                C["identity_probes"] += 1
                if not (e[1] == "ok" and e[3] is True):
                    out["violations"].append({"kind": "inactive-snapshot-is-not-identity", "detail": {"event": e}, "witness": wit, "finding": None})
        if len(out["samples"]) < 2:
            out["samples"].append({"file": src[:1500], "log_active": active[:8], "log_plain": plain[:8]})
    # ---- real sessions: a test passes with inline-snapshot active (no category flags) iff it passes with
    # --inline-snapshot=disable; same for report / short-report
    from .. import session

    nreal = {"quick": 1 if args.shard < len(REAL_MODES) else 0, "thorough": 7}[tier]
    for c in range(nreal):
        rng = random.Random(f"{args.seed}/{PROP}/session/{args.shard}/{c}")
        sites = [make_site(rng, i) for i in range(rng.randint(8, 14))]
        for s in sites:
            s["place"] = "loop" if s["place"] in ("comp", "helper") else s["place"]
        src, order = program.build(sites, style="assert", tests=len(sites), per_test=1, header="import pytest\n" + inproc.HEADER_FULL)
        mname, mode, menv, inactive = REAL_MODES[(args.shard + c) % len(REAL_MODES)]
        # an xfail-marked test runs first (inline-snapshot is switched off for it and must come back as it was)
        first = "@pytest.mark.xfail\ndef test_000_xfail_first():\n    assert 1 == snapshot(2)\n\n\n"
        i = src.index("def test_0():")
        src = src[:i] + first + src[i:]
        if inactive:
            # sessions that are disabled implicitly: snapshot(v) is v itself for every test, also after an xfail test
            src += "\n\ndef test_zz_identity():\n    assert type(snapshot([1, 2])) is list\n    assert type(snapshot({'k': (1, 2)})) is dict\n\n\ndef test_zz_negated_comparison():\n    assert not (3 == snapshot(2))\n    assert not (3 <= snapshot(2))\n    assert 3 not in snapshot([2])\n"
        # a comparison against snapshot(v) has no observable side effect that the comparison against v does not have
        src += SIDE_EFFECT_TESTS
        proj = session.Project({"test_a.py": src})
        try:
            ra = session.run_session(proj, mode, env=menv)
            rd = session.run_session(proj, ["--inline-snapshot=disable"])
        finally:
            proj.close()
        C["real_session_pairs"] = C.get("real_session_pairs", 0) + 1
        C["real_mode_" + mname] = C.get("real_mode_" + mname, 0) + 1
        wit = {"files": {"test_a.py": src}, "args": mode, "env": menv}
        changed_py = [k for k in ra.changed if k.endswith(".py")]  # `-new` files of outsourced data are C13's subject
        if changed_py:
            out["violations"].append({"kind": "file-changed-without-flags(real session)", "detail": {"args": mode, "changed": changed_py}, "witness": wit, "finding": None})
        if not ra.outcomes or set(ra.outcomes) != set(rd.outcomes):
            out["inconclusive"].append(f"real sessions produced different test sets: {len(ra.outcomes)} vs {len(rd.outcomes)}; {ra.stdout[-200:]}")
            continue
        for t in ra.outcomes:
            out["evaluations"] += 1
            C["real_test_outcomes"] = C.get("real_test_outcomes", 0) + 1
            out["signatures"].add(f"real-session/{mname}/{rd.outcomes[t]}")
            if (ra.outcomes[t] == "passed") != (rd.outcomes[t] == "passed"):
                out["violations"].append({"kind": "test-outcome-differs-from-disabled-session", "detail": {"test": t, "session": mname, "outcome": ra.outcomes[t], "disabled": rd.outcomes[t], "args": mode, "env": menv}, "witness": wit, "finding": None})
    out["signatures"] = sorted(out["signatures"])
    return out


def replay(data):
    src = data["witness"]["files"]["test_a.py"]
    res = inproc.run({"test_a.py": src}, ())
    plain_logs, _, _, _ = inproc.plain_run({"test_a.py": src})
    for a, p in zip(res.logs["test_a.py"], plain_logs["test_a.py"]):
        print("DIFF " if tuple(a) != tuple(p) else "     ", a, p)
    return 0


def main(tier, seed):
    out = common.Outcome(PROP, tier, seed)
    for sh in common.run_shards(PROP, tier, seed):
        out.merge(sh)
    if out.counters.get("comparisons") and out.counters.get("skipped_plain_raises", 0) > 0.3 * out.counters["comparisons"]:
        out.inconclusive.append("more than 30% of the generated comparisons raise on the plain value (generator drifted out of scope)")
    return common.finish(out, RULE, ASSUMPTIONS, min_evals=1000, min_distinct=50, required_counters=("in_scope", "misuse_pairs", "identity_probes"))
