"""C07 - a wrong or missing snapshot never yields a green run.

Real pytest sessions over generated files of ~40 small tests; each test is labelled by the
generator (plain Python on the values in the source): BAD = it executes an empty snapshot
or a comparison that is false against the value currently in the source, GOOD = all its
snapshots hold.  Monitors: junit per-test outcome + process exit status, for every flag
set incl. review answers.  An in-process replica adds volume for the counters.
"""

from __future__ import annotations

import random

from .. import common
from .. import inproc
from .. import session

PROP = "C07"
# values whose comparisons return an object with a truth value instead of a bool (like numpy scalars do)
SCALAR = (
    "class Truth:\n    def __init__(self, v):\n        self.v = v\n\n    def __bool__(self):\n        return self.v\n\n    def __repr__(self):\n        return f'Truth({self.v})'\n\n\n"
    "class Scalar:\n    def __init__(self, n):\n        self.n = n\n\n    def __repr__(self):\n        return f'Scalar({self.n})'\n\n"
    "    def __eq__(self, other):\n        return Truth(self.n == other.n) if type(other) is Scalar else NotImplemented\n\n"
    "    def __le__(self, other):\n        return Truth(self.n <= other.n) if type(other) is Scalar else NotImplemented\n\n"
    "    def __ge__(self, other):\n        return Truth(self.n >= other.n) if type(other) is Scalar else NotImplemented\n\n\n"
)
HEADER = "import pytest\nfrom inline_snapshot import snapshot, Is\nfrom inline_snapshot.testing import Example\nfrom vp import *\n\n" + SCALAR
# tests that use the public testing helper with snapshot() arguments: the inner example runs in a nested
# inline-snapshot state, the snapshots passed to run_inline belong to the outer test
INNER = '{"test_inner.py": "from inline_snapshot import snapshot\\ndef test_inner():\\n    assert %d == snapshot()\\n"}'
TESTING_API = [
    ("testing-api-wrong-categories", True, 'Example(' + INNER + ').run_inline(["--inline-snapshot=create"], reported_categories=snapshot(["fix"]))'),
    ("testing-api-empty-categories", True, 'Example(' + INNER + ').run_inline(["--inline-snapshot=create"], reported_categories=snapshot())'),
    ("testing-api-wrong-changed-files", True, 'Example(' + INNER + ').run_inline(["--inline-snapshot=create"], changed_files=snapshot({}))'),
    ("testing-api-correct-categories", False, 'Example(' + INNER + ').run_inline(["--inline-snapshot=create"], reported_categories=snapshot(["create"]))'),
    ("testing-api-wrong-categories-no-flags", True, 'Example(' + INNER + ').run_inline(reported_categories=snapshot(["fix"]))'),
]
GOOD_EXOTIC = [
    "assert DC(a=1, b={x}) == snapshot(DC(a=1, b=snapshot({x})))",
    "assert NT(a=1, b={x}) == snapshot(NT(a=1, b=snapshot({x})))",
    "assert [{x}, 2] == snapshot([Is({x}), snapshot(2)])",
    "assert AT(a={x}) == snapshot(AT(a=snapshot({x}), b=7))",
    "for v in ({x}, {x}):\n        assert [v, [v]] == snapshot([{x}, snapshot([{x}])])",
]
FLAGSETS = [
    ("default", [], None),
    ("report", ["--inline-snapshot=report"], None),
    ("short-report", ["--inline-snapshot=short-report"], None),
    ("create", ["--inline-snapshot=create"], None),
    ("fix", ["--inline-snapshot=fix"], None),
    ("trim", ["--inline-snapshot=trim"], None),
    ("update", ["--inline-snapshot=update"], None),
    ("create,fix", ["--inline-snapshot=create,fix"], None),
    ("all", ["--inline-snapshot=create,fix,trim,update"], None),
    ("fix,report", ["--inline-snapshot=fix,report"], None),
    ("review-yyyy", ["--inline-snapshot=review"], b"y\ny\ny\ny\n"),
    ("review-nnnn", ["--inline-snapshot=review"], b"n\nn\nn\nn\n"),
    ("review-ynyn", ["--inline-snapshot=review"], b"y\nn\ny\nn\n"),
]
RULE = (
    "generated files of 30-45 small tests; each test has 1-4 comparisons over {==, reflected ==, <=, >=, in, [k]} with asserting and non-asserting (result ignored) forms, loops and "
    "several snapshots per test, plus eleven snapshots executed by three tests each (parametrised test / helper called from three tests); a test is BAD if some executed snapshot is empty or some comparison is false against the value in the source (position first/middle/last), else GOOD; "
    "each file runs as a real `python -m pytest` session per flag set (13 flag sets incl. review with answers); case = (test, flag set); non-trivial = BAD test; "
    "distinct = (bad kind, op, position, asserting?, flag set)."
)
ASSUMPTIONS = [
    "scope of the statement: snapshots executed inside test functions, copyable values, arguments that do not change between evaluations",
    "review sessions get four answers on stdin and FORCE_COLOR (the plugin then sees a terminal)",
]


SCALAR_TESTS = [
    ("falsy-object-result-eq", True, "assert Scalar({x}) == snapshot(Scalar({y}))"),
    ("falsy-object-result-req", True, "assert snapshot(Scalar({y})) == Scalar({x})"),
    ("falsy-object-result-le", True, "assert Scalar({z}) <= snapshot(Scalar({x}))"),
    ("falsy-object-result-ge", True, "assert Scalar({x}) >= snapshot(Scalar({z}))"),
    ("truthy-object-result-eq", False, "assert Scalar({x}) == snapshot(Scalar({x}))"),
    ("truthy-object-result-le", False, "assert Scalar({x}) <= snapshot(Scalar({z}))"),
]


def cmp_line(op, x, snapv, asserting, name=None):
    s = f"snapshot({snapv})" if snapv is not None else "snapshot()"
    if name:
        # the snapshot object was bound to a variable before: compared several times without being re-created
        e = {"eq": f"{x} == {name}", "req": f"{name} == {x}", "le": f"{x} <= {name}", "ge": f"{x} >= {name}", "in": f"{x} in {name}", "getitem": f"{name}['k'] == {x}"}[op]
        return ("assert " + e) if asserting else ("_ = " + e)
    e = {"eq": f"{x} == {s}", "req": f"{s} == {x}", "le": f"{x} <= {s}", "ge": f"{x} >= {s}", "in": f"{x} in {s}"}.get(op)
    if op == "getitem":
        if snapv is None:
            e = f"snapshot()['k'] == {x}"
        else:
            e = f"snapshot({snapv})['k'] == {x}"
    return ("assert " + e) if asserting else ("_ = " + e)


def good_value(op, x):
    return {"eq": repr(x), "req": repr(x), "le": repr(x + 3), "ge": repr(x - 3), "in": repr([x - 1, x, x + 1]), "getitem": repr({"k": x, "other": 0})}[op]


def wrong_value(op, x):
    return {"eq": repr(x + 1), "req": repr(x + 1), "le": repr(x - 5), "ge": repr(x + 5), "in": repr([x - 1, x + 1]), "getitem": repr({"k": x + 1})}[op]


def make_test(rng, k):
    n = rng.randint(1, 4)
    bad_kind = rng.choice([None, None, "empty", "wrong", "wrong", "wrong-in-loop", "missing-key", "wrong-later-shared-object"])
    bad_pos = rng.randrange(n)
    lines = []
    meta = {"bad": bad_kind is not None, "kind": bad_kind or "good", "pos": "first" if bad_pos == 0 else "last" if bad_pos == n - 1 else "middle", "ops": []}
    for i in range(n):
        op = rng.choice(["eq", "req", "le", "ge", "in", "getitem"])
        x = rng.randint(10, 90)
        asserting = rng.random() < 0.75
        if i == bad_pos and bad_kind:
            meta["ops"].append(op)
            meta["asserting"] = asserting
            if bad_kind == "empty":
                lines.append(cmp_line(op, x, None, asserting))
            elif bad_kind == "wrong":
                lines.append(cmp_line(op, x, wrong_value(op, x), asserting))
            elif bad_kind == "missing-key":
                lines.append(("assert " if asserting else "_ = ") + f"snapshot({{'other': 1}})['k'] == {x}")
                meta["ops"][-1] = "getitem"
            elif bad_kind == "wrong-later-shared-object":
                # one snapshot object (created once), first comparisons hold, a later one does not
                seq = {"eq": [x, x, x + 1], "req": [x, x + 1], "le": [x, x + 1, x + 20], "ge": [x, x - 1, x - 20], "in": [x, x + 1, x + 50], "getitem": [x, x, x + 2]}[op]
                snapv = {"eq": repr(x), "req": repr(x), "le": repr(x + 3), "ge": repr(x - 3), "in": repr([x, x + 1]), "getitem": repr({"k": x})}[op]
                lines.append(f"shared_{i} = snapshot({snapv})")
                lines.append(f"for v in {seq!r}:")
                lines.append("    " + cmp_line(op, "v", snapv, asserting, name=f"shared_{i}"))
            else:  # the first iterations hold, a later one does not
                if op in ("eq", "req", "getitem"):
                    op = "le"
                    meta["ops"][-1] = op
                seq = {"le": [x, x + 1, x + 20], "ge": [x, x - 1, x - 20], "in": [x, x + 1, x + 50]}[op]
                snapv = {"le": repr(x + 3), "ge": repr(x - 3), "in": repr([x, x + 1])}[op]
                lines.append(f"for v in {seq!r}:")
                lines.append("    " + cmp_line(op, "v", snapv, asserting))
        else:
            if rng.random() < 0.2 and op in ("le", "ge", "in"):
                seq = [x, x + 1] if op != "ge" else [x, x - 1]
                snapv = {"le": repr(x + 3), "ge": repr(x - 3), "in": repr([x, x + 1, 0])}[op]
                lines.append(f"for v in {seq!r}:")
                lines.append("    " + cmp_line(op, "v", snapv, True))
            else:
                lines.append(cmp_line(op, x, good_value(op, x), True))
    # the call phase may end with an imperative skip/xfail: a bad snapshot executed before must still fail the test,
    # a good test must only be reported as skipped/xfailed
    r = rng.random()
    if r < 0.12:
        lines.append(rng.choice(["pytest.skip('enough')", "pytest.xfail('known problem')", "pytest.importorskip('module_which_does_not_exist')"]))
        meta["ends_with"] = lines[-1].split("(")[0]
    src = f"def test_{k}():\n" + "\n".join("    " + ln for ln in lines) + "\n"
    return src, meta


def make_file(rng):
    tests, metas = [], {}
    for k in range(rng.randint(30, 45)):
        t, m = make_test(rng, k)
        tests.append(t)
        metas[f"test_{k}"] = m
    for j, tmpl in enumerate(GOOD_EXOTIC):
        k = 1000 + j
        tests.append(f"def test_{k}():\n    " + tmpl.format(x=rng.randint(10, 90)) + "\n")
        metas[f"test_{k}"] = {"bad": False, "kind": "good-nested", "pos": "-", "ops": ["eq"]}
    for j, (kind, bad, body) in enumerate(SCALAR_TESTS):
        k = 3000 + j
        x = rng.randint(10, 90)
        tests.append(f"def test_{k}():\n    " + body.format(x=x, y=x + 1, z=x + 5) + "\n")
        metas[f"test_{k}"] = {"bad": bad, "kind": kind, "pos": "-", "ops": [kind.split("-")[-1]], "asserting": True}
    for j, (kind, bad, body) in enumerate(TESTING_API):
        k = 2000 + j
        tests.append(f"def test_{k}():\n    " + (body % rng.randint(10, 90)) + "\n")
        metas[f"test_{k}"] = {"bad": bad, "kind": kind, "pos": "-", "ops": ["eq"], "asserting": True}
    # one snapshot() call executed by several tests of the session (parametrised test, helper called from two
    # tests): the snapshot object lives for the whole session, the per-test counters do not - every test that
    # executes the empty / wrong snapshot is bad, not only the first one (seeded round 6)
    x = rng.randint(10, 90)
    shared = [
        ("shared-empty-eq", True, f"assert {x} == snapshot()"),
        ("shared-empty-req", True, f"assert snapshot() == {x}"),
        ("shared-empty-getitem", True, f"assert snapshot()['k'] == {x}"),
        ("shared-empty-subkey", True, f"assert snapshot({{'other': 1}})['k'] == {x}"),
        ("shared-empty-le", True, f"assert {x} <= snapshot()"),
        ("shared-empty-in", True, f"assert {x} in snapshot()"),
        ("shared-empty-ignored", True, f"_ = {x} == snapshot()"),
        ("shared-wrong-eq", True, f"assert {x} == snapshot({x + 1})"),
        ("shared-wrong-in", True, f"assert {x} in snapshot([{x + 1}])"),
        ("shared-good-eq", False, f"assert {x} == snapshot({x})"),
        ("shared-good-le", False, f"assert {x} <= snapshot({x + 2})"),
    ]
    for j, (kind, bad, body) in enumerate(shared):
        k = 4000 + j
        op = kind.split("-")[-1]
        if j % 2 == 0:
            tests.append(f"@pytest.mark.parametrize('i', [0, 1, 2])\ndef test_{k}(i):\n    {body}\n")
            for i in range(3):
                metas[f"test_{k}[{i}]"] = {"bad": bad, "kind": kind + "/param", "pos": str(i), "ops": [op], "asserting": "assert" in body, "def": f"test_{k}"}
        else:
            tests.append(f"def helper_{k}():\n    {body}\n")
            for i in range(3):
                tests.append(f"def test_{k}_{i}():\n    helper_{k}()\n")
                metas[f"test_{k}_{i}"] = {"bad": bad, "kind": kind + "/helper", "pos": str(i), "ops": [op], "asserting": "assert" in body, "def": f"helper_{k}"}
    return HEADER + "\n".join(tests), metas


def run_shard(args):
    tier = args.tier
    nfiles = {"quick": 1, "thorough": 12}[tier]
    C = {"sessions": 0, "test_outcomes": 0, "bad_tests": 0, "good_tests": 0, "inproc_tests": 0, "by_flagset": {}, "session_exceptions": 0}
    out = {"evaluations": 0, "signatures": set(), "samples": [], "violations": [], "counters": C, "inconclusive": []}
    for c in range(nfiles):
        rng = random.Random(f"{args.seed}/{PROP}/{args.shard}/{c}")
        src, metas = make_file(rng)
        # quick: every shard takes a slice of the flag sets (16 shards x 1 file ~ 13 flag sets each covered >= once)
        if tier == "quick":
            fsets = [FLAGSETS[(args.shard + i * 5) % len(FLAGSETS)] for i in range(2)]
        else:
            fsets = FLAGSETS
        for name, fargs, stdin in fsets:
            proj = session.Project({"test_a.py": src}, with_vp=True)
            try:
                env = {"FORCE_COLOR": "true"} if stdin else None
                r = session.run_session(proj, fargs, env=env, stdin=stdin)
            finally:
                proj.close()
            C["sessions"] += 1
            C["by_flagset"][name] = C["by_flagset"].get(name, 0) + 1
            wit = {"files": {"test_a.py": src}, "args": fargs, "stdin": stdin.decode() if stdin else None}
            if r.timeout or not r.outcomes:
                out["inconclusive"].append(f"session produced no outcomes (exit={r.exit}): {r.stdout[-300:]} {r.stderr[-300:]}")
                continue
            if any(a["kind"] == "sessionfinish_exception" for a in r.audit):
                C["session_exceptions"] += 1
            any_bad = False
            for tname, m in metas.items():
                oc = r.outcomes.get(f"test_a::{tname}")
                if oc is None:
                    out["inconclusive"].append(f"no junit outcome for {tname}")
                    continue
                out["evaluations"] += 1
                C["test_outcomes"] += 1
                if m["bad"]:
                    any_bad = True
                    C["bad_tests"] += 1
                    out["signatures"].add(f"{m['kind']}/{'+'.join(m['ops'])}/{m['pos']}/{'assert' if m.get('asserting') else 'ignored'}/{m.get('ends_with', 'return')}/{name}")
                    if "failure" not in oc and "error" not in oc:
                        # the statement asks for failed or errored: a bad test that is only reported as skipped/xfailed is green too
                        out["violations"].append({"kind": "bad-snapshot-test-reported-passed" if oc == "passed" else "bad-snapshot-test-reported-" + oc, "detail": {"test": tname, "meta": m, "flagset": name, "outcome": oc, "source": _test_source(src, tname)}, "witness": wit, "finding": None})
                else:
                    C["good_tests"] += 1
                    if m.get("ends_with"):
                        C["good_tests_ending_with_skip"] = C.get("good_tests_ending_with_skip", 0) + 1
                    if oc != "passed" and not (m.get("ends_with") and oc == "skipped"):
                        out["violations"].append({"kind": "good-test-failed", "detail": {"test": tname, "meta": m, "flagset": name, "outcome": oc, "source": _test_source(src, tname)}, "witness": wit, "finding": None})
            if any_bad and r.exit == 0:
                out["violations"].append({"kind": "exit-status-0-with-bad-snapshots", "detail": {"flagset": name, "stdout_tail": r.stdout[-500:]}, "witness": wit, "finding": None})
        if len(out["samples"]) < 1:
            out["samples"].append({"file_head": src[:1500], "labels": {k: v["kind"] for k, v in list(metas.items())[:10]}})
    # in-process replica for volume: counters after each test function
    for c in range({"quick": 6, "thorough": 200}[tier]):
        rng = random.Random(f"{args.seed}/{PROP}/inproc/{args.shard}/{c}")
        src, metas = make_file(rng)
        for F in ((), ("fix",), ("create",), ("create", "fix", "trim", "update"), ("update",), ("trim",)):
            counts = _inproc_counts(src, F)
            for tname, m in metas.items():
                if tname not in counts:
                    continue
                miss, inc, raised = counts[tname]
                C["inproc_tests"] += 1
                out["evaluations"] += 1
                failed = bool(miss or inc or raised)
                if m["bad"] and m.get("ends_with"):
                    failed = bool(miss or inc)  # the Skipped/XFailed exception of the body is not a failure
                if m["bad"] and not failed:
                    out["violations"].append({"kind": "bad-snapshot-test-would-pass(in-process)", "detail": {"test": tname, "meta": m, "flags": list(F), "source": _test_source(src, tname)}, "witness": {"files": {"test_a.py": src}, "flags": list(F)}, "finding": None})
                if not m["bad"] and failed and not (m.get("ends_with") and not miss and not inc):
                    out["violations"].append({"kind": "good-test-would-fail(in-process)", "detail": {"test": tname, "meta": m, "flags": list(F), "counts": [miss, inc, raised], "source": _test_source(src, tname)}, "witness": {"files": {"test_a.py": src}, "flags": list(F)}, "finding": None})
    out["signatures"] = sorted(out["signatures"])
    return out


def _test_source(src, tname):
    tname = tname.split("[")[0]
    i = src.index(f"def {tname}(")
    j = src.find("\ndef ", i + 1)
    return src[i : j if j != -1 else None]


def _inproc_counts(src, F):
    """run every test function separately resetting the counters like the autouse fixture does"""
    from inline_snapshot._flags import Flags
    from inline_snapshot._global_state import snapshot_env

    d = inproc.new_dir("c7")
    inproc.write_project(d, {"test_a.py": src}, with_vp=True)
    out = {}
    keep = []
    import os
    import shutil

    old = os.getcwd()
    os.chdir(d)
    import sys

    sys.path.insert(0, str(d))
    inproc._purge_modules()
    try:
        with snapshot_env() as st:
            st.update_flags = Flags(set(F))
            g = inproc._exec_file(d / "test_a.py", keep)
            for k, v in g.items():
                if k.startswith("test_") and callable(v):
                    st.missing_values = 0
                    st.incorrect_values = 0
                    raised = False
                    try:
                        v()
                    except BaseException:
                        raised = True
                    out[k] = (st.missing_values, st.incorrect_values, raised)
            st.active = False
    finally:
        os.chdir(old)
        sys.path.remove(str(d))
        inproc._purge_modules()
        shutil.rmtree(d, ignore_errors=True)
    return out


def replay(data):
    w = data["witness"]
    if "args" in w:
        proj = session.Project(w["files"], with_vp=False)
        r = session.run_session(proj, w["args"], env={"FORCE_COLOR": "true"} if w.get("stdin") else None, stdin=w["stdin"].encode() if w.get("stdin") else None)
        proj.close()
        print(r.exit, {k: v for k, v in r.outcomes.items()})
        return 0
    print(_inproc_counts(w["files"]["test_a.py"], w["flags"]))
    return 0


def main(tier, seed):
    out = common.Outcome(PROP, tier, seed)
    for sh in common.run_shards(PROP, tier, seed):
        out.merge(sh)
    return common.finish(out, RULE, ASSUMPTIONS, min_evals=500, min_distinct=50, required_counters=("sessions", "bad_tests", "good_tests", "inproc_tests"))
