"""C08 - a second run is a no-op.

History generator: the same deterministic recording-style program is run 2-4 times with
the same approved set F (F = all four categories, or a random subset).  Monitors: file
bytes after run 1 vs after run n, per-site change flags of run 2, comparison log and
missing/incorrect counters of run 2 (in-process analogue of "exits successfully").
"""

from __future__ import annotations

import random

from .. import common
from .. import inproc
from .. import program
from . import c02
from . import c05

PROP = "C08"
CATS = ["create", "fix", "trim", "update"]
RULE = (
    "recording-style programs drawn from the C02 generator (hostile-layout previous text + edit scripts) and the C05 generator (bounds, `in`, sub-snapshots with "
    "slack/missing members); history = 2-4 identical runs with F = all four categories (60%) or a random subset; case = (program, F, history length); non-trivial = "
    "run 1 changed the file; distinct = (F, categories pending before run 1, change classes applied in run 1)."
)
ASSUMPTIONS = [
    "tests are deterministic (generated that way) and every run reaches every comparison (recording style)",
    "in-process analogue of the session exit status: no comparison is False, missing_values == incorrect_values == 0 in run 2 after all four categories were approved",
]


def run_shard(args):
    tier = args.tier
    ncases = {"quick": 130, "thorough": 2500}[tier]
    C = {"programs": 0, "runs": 0, "crashed": 0, "run1_changed_file": 0, "second_run_sites_checked": 0, "second_run_update_only_flags": 0, "histories_len3plus": 0, "crash_kinds": {}}
    out = {"evaluations": 0, "signatures": set(), "samples": [], "violations": [], "counters": C, "inconclusive": []}
    for c in range(ncases):
        rng = random.Random(f"{args.seed}/{PROP}/{args.shard}/{c}")
        mk = c02.make_site if rng.random() < 0.5 else (lambda r, i, d: c05.make_site(r, i, d))
        sites = [mk(rng, i, 3 if mk is c02.make_site else 2) for i in range(rng.randint(4, 8))]
        src, order = program.build(sites, style="rec", tests=rng.randint(1, 3))
        full = rng.random() < 0.6
        F = frozenset(CATS) if full else frozenset(x for x in CATS if rng.random() < 0.5)
        n = rng.choice([2, 2, 3, 4])
        if c == 0 and args.shard < 3:
            # regression corpus (shapes of the defects found on the pinned tree)
            from .. import corpus

            sites = corpus.sites()
            src, order = program.build(sites, style="rec", tests=4)
            full, F, n = True, (frozenset(CATS), frozenset({"update"}), frozenset({"create", "fix", "update"}))[args.shard], 3
            full = args.shard == 0
            C["corpus_histories"] = C.get("corpus_histories", 0) + 1
        C["programs"] += 1
        files = {"test_a.py": src}
        store = inproc.new_dir("store")
        history = []
        aborted = False
        for k in range(n):
            res = inproc.run(files, F, storage_dir=store)
            C["runs"] += 1
            if res.exec_exc:
                out["inconclusive"].append(f"module failed in run {k + 1}: {res.exec_exc}")
                aborted = True
                break
            if res.crashed():
                C["crashed"] += 1
                kk = str((res.collect_exc or res.apply_exc)[::2])
                C["crash_kinds"][kk] = C["crash_kinds"].get(kk, 0) + 1
                aborted = True
                break
            for f in list(store.glob("*-new.*")):
                f.rename(f.with_name(f.name.replace("-new.", ".")))
            history.append(res)
            files = {"test_a.py": res.files_after["test_a.py"].decode("utf-8")}
        import shutil

        shutil.rmtree(store, ignore_errors=True)
        if aborted:
            continue
        out["evaluations"] += 1
        r1, r2 = history[0], history[1]
        changed1 = r1.files_after["test_a.py"] != r1.files_before["test_a.py"]
        if changed1:
            C["run1_changed_file"] += 1
            kinds = sorted({k for s in r1.sites for k in s.get("kinds", [])})
            out["signatures"].add(f"{'+'.join(sorted(F)) or '-'}/{'+'.join(sorted(r1.flags_reported))}/{'+'.join(kinds)}")
        if n >= 3:
            C["histories_len3plus"] += 1
        wit = {"files": {"test_a.py": src}, "flags": sorted(F), "runs": n}
        after1 = r1.files_after["test_a.py"]
        for k, r in enumerate(history[1:], start=2):
            if r.files_after["test_a.py"] != after1:
                import difflib

                diff = "\n".join(difflib.unified_diff(after1.decode().splitlines(), r.files_after["test_a.py"].decode().splitlines(), lineterm="", n=0))
                out["violations"].append({"kind": "file-changed-again-by-identical-run", "detail": {"F": sorted(F), "run": k, "diff": diff[:1500], "flags_run": sorted(r.flags_reported)}, "witness": wit, "finding": classify(src, F, n)})
                break
        if full:
            C["second_run_sites_checked"] += len(r2.sites)
            bad = sorted(r2.flags_reported - {"update"})
            if bad:
                sites_bad = [s for s in r2.sites if set(s.get("flags", [])) - {"update"}]
                out["violations"].append({"kind": "second-run-reports-create-fix-trim", "detail": {"flags": bad, "sites": sites_bad[:4], "after_run1": after1.decode()[:2500]}, "witness": wit, "finding": None})
            else:
                C["second_run_update_only_flags"] += 1
                if "update" in r2.flags_reported:
                    # "shows no pending diff": after a run that approved update as well nothing may be pending
                    sites_upd = [s for s in r2.sites if "update" in s.get("flags", [])]
                    out["violations"].append({"kind": "second-run-still-has-a-pending-update", "detail": {"sites": sites_upd[:4], "after_run1": after1.decode()[:2500]}, "witness": wit, "finding": None})
            ev = r2.logs.get("test_a.py", [])
            notok = [e for e in ev if not (e[1] == "ok" and e[3] is True)]
            if notok or r2.missing or r2.incorrect:
                out["violations"].append({"kind": "second-run-not-green", "detail": {"events": notok[:5], "missing": r2.missing, "incorrect": r2.incorrect, "after_run1": after1.decode()[:2500]}, "witness": wit, "finding": None})
        if len(out["samples"]) < 2 and changed1:
            out["samples"].append({"F": sorted(F), "runs": n, "before": src[:900], "after_run1": after1.decode()[:900]})
    # ---- real sessions: run 1 approves all four categories, run 2 is identical
    from .. import session

    nreal = {"quick": 1 if args.shard < 4 else 0, "thorough": 6}[tier]
    for c in range(nreal):
        rng = random.Random(f"{args.seed}/{PROP}/session/{args.shard}/{c}")
        sites = [c05.make_site(rng, i, 2) for i in range(rng.randint(4, 8))]
        for s in sites:
            if s["place"] == "module" and s["old"] is None:
                s["place"] = "loop"
        src, order = program.build(sites, style="rec", tests=rng.randint(1, 3), header="from inline_snapshot import snapshot, Is, HasRepr, external, outsource\nfrom vp import *\n")
        # a referenced, persisted external whose outsourced data has changed since (fix writes the new reference and
        # persists the new data, trim removes the old file - all of it in the first run) + an unreferenced stored file
        import hashlib

        old_data = f"old data {rng.randint(0, 999)}".encode()
        stale = f"unreferenced {rng.randint(0, 999)}".encode()
        oh = hashlib.sha256(old_data).hexdigest()
        src += f"\n\ndef test_changed_external():\n    assert outsource('new data {rng.randint(0, 999)}') == snapshot(external('{oh[:12]}*.txt'))\n"
        # values that are equal but written differently: each site gets the code of its own value in the first run
        src += "\n\ndef test_equal_values_written_differently():\n    assert 0.0 == snapshot()\n    assert -0.0 == snapshot()\n    assert (1, True) == snapshot()\n    assert (1, 1) == snapshot()\n    assert [2.0, (0, False)] == snapshot([1])\n    assert [2, (0, 0)] == snapshot([1])\n"
        pfiles = {"test_a.py": src, f".inline-snapshot/external/{oh}.txt": old_data, f".inline-snapshot/external/{hashlib.sha256(stale).hexdigest()}.bin": stale}
        if (args.shard + c) % 4 == 3:
            # the first run changes the file without changing its size (the second session must not run a stale
            # byte-code cache of the old source)
            x, y = rng.sample(range(11, 98), 2)
            src = f"from inline_snapshot import snapshot\n\n\ndef test_a():\n    assert {x} == snapshot({x + 1})\n    assert 'ab{y}' == snapshot('ba{y}')\n\n\ndef test_b():\n    assert [{y}, {x}] == snapshot([{x}, {y}])\n"
            pfiles = {"test_a.py": src}
            C["same_size_rewrites"] = C.get("same_size_rewrites", 0) + 1
        proj = session.Project(pfiles)
        try:
            fl = ["--inline-snapshot=create,fix,trim,update"]
            r1 = session.run_session(proj, fl)
            r2 = session.run_session(proj, fl)
        finally:
            proj.close()
        C["real_session_pairs"] = C.get("real_session_pairs", 0) + 1
        out["evaluations"] += 1
        out["signatures"].add("real-session/all-four-twice")
        wit = {"files": {k: (v.decode() if isinstance(v, bytes) else v) for k, v in pfiles.items()}, "args": fl}
        if any(a["kind"] == "sessionfinish_exception" for a in r1.audit + r2.audit):
            out["violations"].append({"kind": "session-end-raised", "detail": {"events": [a for a in r1.audit + r2.audit if a["kind"] == "sessionfinish_exception"]}, "witness": wit, "finding": None})
            continue
        problems = []
        if r2.exit != 0:
            problems.append(f"second run exit status {r2.exit}")
        if r2.changed:
            problems.append(f"second run changed {r2.changed}")
        for word in ("Create snapshots", "Fix snapshots", "Trim snapshots"):
            if word in r2.stdout:
                problems.append(f"second run reports '{word}'")
        w = [a for a in r2.audit if a["kind"] in ("open_w", "rename", "remove") and str(a.get("path", a.get("dst"))).endswith(".py")]
        if w:
            problems.append(f"second run wrote test files: {w[:2]}")
        if problems:
            out["violations"].append({"kind": "second-real-session-is-not-a-no-op", "detail": {"problems": problems, "stdout_tail": r2.stdout[-1200:]}, "witness": wit, "finding": None})
    out["signatures"] = sorted(out["signatures"])
    return out


def classify(src, F, n):
    return None


def replay(data):
    files = dict(data["witness"]["files"])
    F = data["witness"]["flags"]
    for k in range(data["witness"].get("runs", 2)):
        res = inproc.run(files, F)
        print(f"--- after run {k + 1}: flags reported {sorted(res.flags_reported)}")
        print(res.files_after["test_a.py"].decode())
        files = {"test_a.py": res.files_after["test_a.py"].decode()}
    return 0


def main(tier, seed):
    out = common.Outcome(PROP, tier, seed)
    for sh in common.run_shards(PROP, tier, seed):
        out.merge(sh)
    progs = out.counters.get("programs", 0)
    if progs and out.counters.get("crashed", 0) > 0.05 * progs:
        out.inconclusive.append(f"{out.counters['crashed']} of {progs} histories ended in an internal error (C18): {out.counters.get('crash_kinds')}")
    return common.finish(out, RULE, ASSUMPTIONS, min_evals=200, min_distinct=20, required_counters=("run1_changed_file", "second_run_sites_checked"))
