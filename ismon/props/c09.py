"""C09 - the order in which categories are approved does not matter.

For a recording-style program with k >= 2 pending categories (taken from a no-flag run),
all k! orders of single-category runs are executed (each run starts from the previous
run's files) and compared with the single run approving all k together: the final
modules must have identical syntax trees.
"""

from __future__ import annotations

import ast
import itertools
import random
import shutil

from .. import common
from .. import gen
from .. import inproc
from .. import program
from . import c02
from . import c05

PROP = "C09"
RULE = (
    "recording-style programs (C02 generator: containers with fix+update; C05 generator: `in` lists needing fix+trim(+update), sub-snapshots needing create+trim+nested fix, "
    "bounds with non-canonical text); pending set P from a run without flags; programs with |P| >= 2 only; every permutation of P as successive single-category "
    "runs + the combined run. case = (program, permutation); non-trivial = the permutation's final file differs from the original; distinct = (P, permutation, change classes)."
)
ASSUMPTIONS = [
    "every run reaches every comparison (recording style); asserting-style programs are out of scope because an aborted trim-only run legitimately trims unreached members (DESIGN 3.4)",
    "identical syntax tree = ast.dump of the whole module",
]


def final_after(src, order_of_sets, store_base):
    """apply runs with the given flag sets successively; returns final text or ('crash', info)"""
    files = {"test_a.py": src}
    store = inproc.new_dir("store")
    try:
        for F in order_of_sets:
            res = inproc.run(files, F, storage_dir=store)
            if res.exec_exc:
                return ("exec", res.exec_exc)
            if res.crashed():
                return ("crash", res.collect_exc or res.apply_exc)
            for f in list(store.glob("*-new.*")):
                f.rename(f.with_name(f.name.replace("-new.", ".")))
            files = {"test_a.py": res.files_after["test_a.py"].decode("utf-8")}
        return files["test_a.py"]
    finally:
        shutil.rmtree(store, ignore_errors=True)


def kw_site(rng, i):
    """dataclass-like call with keyword arguments in arbitrary order, explicit defaults (pending update)
    and fields that appear/disappear/change (pending fix): categories meet inside one call"""
    name = rng.choice(["DC", "AT", "NT"])
    fields, defaults = gen.CALL_FIELDS[name]
    old, new = {}, {}
    for f in fields:
        dv = defaults.get(f)
        r = rng.random()
        if dv is None:  # required field
            v = str(rng.randint(0, 9))
            old[f] = v
            new[f] = v if r < 0.6 else str(rng.randint(10, 19))
        elif r < 0.3:
            old[f] = dv  # explicit default, stays default: update removes it
        elif r < 0.6:
            new[f] = str(rng.randint(20, 29))  # appears: fix inserts it
        elif r < 0.8:
            v = str(rng.randint(30, 39))
            old[f] = v
            new[f] = v
        else:
            old[f] = str(rng.randint(40, 49))  # back to the default: fix removes it
    items = list(old.items())
    rng.shuffle(items)
    old_text = name + "(" + ", ".join(f"{k}={v}" for k, v in items) + ")"
    obs = name + "(" + ", ".join(f"{k}={v}" for k, v in new.items()) + ")"
    return {"id": i, "op": "eq", "old": old_text, "obs": [obs], "place": "loop", "edits": ["kw"], "sig": "kwcall"}


def nested_site(rng, i):
    """a snapshot() call nested inside the value of another one, each with a pending change of its own
    (inner: non-canonical text = update, or a wrong value = fix; outer: the code around the inner call is
    deleted / replaced / kept while a sibling changes): the categories meet in nested source ranges"""
    a, b = rng.randint(0, 9), rng.randint(10, 19)
    inner_kind = rng.choice(["update", "update", "fix"])
    inner_old = f"{b} + 0" if inner_kind == "update" else str(b + 100)
    inner = f"snapshot({inner_old})"
    form = rng.choice(["list-delete", "list-replace-all", "dict-delete", "list-keep", "tuple-delete", "call-arg-delete"])
    if form == "list-delete":
        old, obs = f"[{a}, {inner}]", f"[{a}]"
    elif form == "tuple-delete":
        old, obs = f"({a}, {inner}, {a + 1})", f"({a}, {a + 1})"
    elif form == "list-replace-all":
        old, obs = f"[{a}, {inner}]", repr("text %d" % a)
    elif form == "dict-delete":
        old, obs = f"{{'k': {a}, 'n': {inner}}}", f"{{'k': {a}}}"
    elif form == "call-arg-delete":
        old, obs = f"DC(a={a}, b={inner})", f"DC(a={a})"
    else:
        old, obs = f"[{a} + 0, {inner}, {a}]", f"[{a}, {b}, {a}, {a + 1}]"
    return {"id": i, "op": "eq", "old": old, "obs": [obs], "place": "loop", "edits": ["nested"], "sig": "nested-" + form + "-" + inner_kind}


def run_shard(args):
    tier = args.tier
    ncases = {"quick": 12, "thorough": 400}[tier]
    C = {"programs": 0, "programs_k2plus": 0, "permutation_runs": 0, "single_category_runs": 0, "crashed": 0, "by_k": {}, "crash_kinds": {}}
    out = {"evaluations": 0, "signatures": set(), "samples": [], "violations": [], "counters": C, "inconclusive": []}
    for c in range(ncases):
        rng = random.Random(f"{args.seed}/{PROP}/{args.shard}/{c}")
        mk = c02.make_site if rng.random() < 0.35 else c05.make_site
        sites = [mk(rng, i, 3 if mk is c02.make_site else 2) for i in range(rng.randint(3, 6))]
        if rng.random() < 0.4:
            sites = [kw_site(rng, i) if rng.random() < 0.7 else s for i, s in enumerate(sites)]
        if rng.random() < 0.35:
            k = rng.randrange(len(sites))
            sites[k] = nested_site(rng, k)
            C["programs_with_nested_snapshot"] = C.get("programs_with_nested_snapshot", 0) + 1
        src, order = program.build(sites, style="rec", tests=rng.randint(1, 2))
        C["programs"] += 1
        res0 = inproc.run({"test_a.py": src}, ())
        if res0.exec_exc:
            out["inconclusive"].append(f"module failed: {res0.exec_exc}")
            continue
        if res0.crashed():
            C["crashed"] += 1
            continue
        P = sorted(res0.flags_reported)
        if len(P) < 2:
            continue
        C["programs_k2plus"] += 1
        C["by_k"][str(len(P))] = C["by_k"].get(str(len(P)), 0) + 1
        combined = final_after(src, [frozenset(P)], None)
        if isinstance(combined, tuple):
            C["crashed"] += 1
            k = str(combined[1][::2]) if combined[0] == "crash" else str(combined)
            C["crash_kinds"][k] = C["crash_kinds"].get(k, 0) + 1
            continue
        try:
            want = ast.dump(ast.parse(combined))
        except SyntaxError as e:
            out["violations"].append({"kind": "combined-run-unparsable", "detail": {"P": P, "error": str(e), "final": combined[:2000]}, "witness": {"files": {"test_a.py": src}, "flags": P}, "finding": None})
            continue
        kinds = sorted({k for s in res0.sites for k in s.get("kinds", [])})
        perms = list(itertools.permutations(P))
        for perm in perms:
            C["permutation_runs"] += 1
            C["single_category_runs"] += len(perm)
            final = final_after(src, [frozenset({f}) for f in perm], None)
            if isinstance(final, tuple):
                C["crashed"] += 1
                k = str(final[1][::2]) if final[0] == "crash" else str(final)
                C["crash_kinds"][k] = C["crash_kinds"].get(k, 0) + 1
                continue
            out["evaluations"] += 1
            if final != src:
                out["signatures"].add(f"{'+'.join(P)}/{'>'.join(perm)}/{'+'.join(kinds)}")
            wit = {"files": {"test_a.py": src}, "flags": P, "order": list(perm)}
            try:
                got = ast.dump(ast.parse(final))
            except SyntaxError as e:
                out["violations"].append({"kind": "final-program-unparsable", "detail": {"P": P, "order": perm, "error": str(e), "final": final[:2000]}, "witness": wit, "finding": None})
                continue
            if got != want:
                import difflib

                diff = "\n".join(difflib.unified_diff(combined.splitlines(), final.splitlines(), "combined", ">".join(perm), lineterm="", n=0))
                out["violations"].append({"kind": "order-dependent-result", "detail": {"P": P, "order": perm, "diff": diff[:2000]}, "witness": wit, "finding": None})
        if len(out["samples"]) < 2:
            out["samples"].append({"pending": P, "orders": len(perms), "before": src[:900], "combined_result": combined[:900]})
    # ---- real review sessions: answer `y` to exactly one pending category per session, in different
    # orders, and compare with one session approving all of them (the plugin applies categories
    # cumulatively on virtual copies: a path the in-process driver does not have)
    from .. import session

    nreal = {"quick": 1 if args.shard < 5 else 0, "thorough": 4}[tier]
    HDR = "from inline_snapshot import snapshot, Is, HasRepr, external, outsource\nfrom vp import *\n"
    for c in range(nreal):
        rng = random.Random(f"{args.seed}/{PROP}/review/{args.shard}/{c}")
        layout = (args.shard + c) % 5
        if layout in (3, 4):
            # fixed multi-file layouts: a later category touches only files an earlier one already changed
            x, y, z = rng.sample(range(10, 99), 3)
            if layout == 3:
                files0 = {"test_a.py": HDR + f"\n\ndef test_a():\n    rec(0, lambda: {x} == snapshot())\n    rec(1, lambda: {y} == snapshot({y + 1}))\n", "test_b.py": HDR + f"\n\ndef test_b():\n    rec(0, lambda: {z} == snapshot())\n"}
            else:
                files0 = {"test_a.py": HDR + f"\n\ndef test_a():\n    rec(0, lambda: {x} == snapshot({x + 1}))\n    rec(1, lambda: {y} in snapshot([{y}, {z}]))\n", "test_b.py": HDR + f"\n\ndef test_b():\n    rec(0, lambda: {z} == snapshot({z + 1}))\n", "test_c.py": HDR + f"\n\ndef test_c():\n    rec(0, lambda: {x} <= snapshot({x}))\n"}
        else:
            files0 = {}
            for fname in ["test_a.py", "test_b.py", "test_c.py"][: 1 + layout]:
                sites = [c05.make_site(rng, i, 2) for i in range(rng.randint(2, 5))]
                if rng.random() < 0.5:
                    sites[0] = kw_site(rng, 0)
                for s in sites:
                    if s["place"] == "module":
                        s["place"] = "loop"
                files0[fname], _ = program.build(sites, style="rec", tests=1, header=HDR)
        res0 = inproc.run(files0, ())
        if res0.exec_exc or res0.crashed():
            continue
        P = [x for x in ("create", "fix", "trim", "update") if x in res0.flags_reported]
        if len(P) < 2:
            continue

        def chain(order_of_cats, mode):
            proj = session.Project(files0)
            try:
                for cat in order_of_cats:
                    cats = list(cat) if isinstance(cat, (list, tuple)) else [cat]
                    if mode == "flags":
                        r = session.run_session(proj, ["--inline-snapshot=" + ",".join(cats)])
                    else:
                        # prompts appear only for categories that are pending *now*, in the order create, fix, trim, update
                        cur = inproc.run({k: (proj.dir / k).read_text() for k in files0}, ())
                        pend = [x for x in ("create", "fix", "trim", "update") if x in cur.flags_reported]
                        answers = "".join("y\n" if x in cats else "n\n" for x in pend) + "n\nn\nn\nn\n"
                        r = session.run_session(proj, ["--inline-snapshot=review"], env={"FORCE_COLOR": "true"}, stdin=answers.encode())
                    if any(a["kind"] == "sessionfinish_exception" for a in r.audit):
                        return ("exc", [a for a in r.audit if a["kind"] == "sessionfinish_exception"])
                return {k: (proj.dir / k).read_text() for k in files0}
            finally:
                proj.close()

        C["review_programs"] = C.get("review_programs", 0) + 1
        C["real_files_per_program_%d" % len(files0)] = C.get("real_files_per_program_%d" % len(files0), 0) + 1
        perms = list(itertools.permutations(P))
        rng.shuffle(perms)
        for mode in ("review", "flags"):
            combined = chain([P], mode)
            for perm in perms[: (1 if tier == "quick" else 4)]:
                final = chain(list(perm), mode)
                C["review_chains"] = C.get("review_chains", 0) + 1
                out["evaluations"] += 1
                out["signatures"].add(f"{mode}/{len(files0)}files/{'+'.join(P)}/{'>'.join(perm)}")
                wit = {"files": files0, "flags": P, "order": list(perm), "mode": mode + " sessions"}
                if isinstance(final, tuple) or isinstance(combined, tuple):
                    out["violations"].append({"kind": "real-session-raised", "detail": {"P": P, "order": perm, "mode": mode, "events": final if isinstance(final, tuple) else combined}, "witness": wit, "finding": None})
                    continue
                for k in files0:
                    try:
                        same = ast.dump(ast.parse(final[k])) == ast.dump(ast.parse(combined[k]))
                    except SyntaxError as e:
                        out["violations"].append({"kind": "final-program-unparsable", "detail": {"P": P, "order": perm, "file": k, "error": str(e)}, "witness": wit, "finding": None})
                        continue
                    if not same:
                        import difflib

                        diff = "\n".join(difflib.unified_diff(combined[k].splitlines(), final[k].splitlines(), "all-at-once", ">".join(perm), lineterm="", n=0))
                        out["violations"].append({"kind": f"order-dependent-result({mode} sessions)", "detail": {"P": P, "order": perm, "file": k, "diff": diff[:2000]}, "witness": wit, "finding": None})
    out["signatures"] = sorted(out["signatures"])
    return out


def replay(data):
    src = data["witness"]["files"]["test_a.py"]
    P = data["witness"]["flags"]
    order = data["witness"].get("order", P)
    print("=== combined", P)
    print(final_after(src, [frozenset(P)], None))
    print("=== one at a time", order)
    print(final_after(src, [frozenset({f}) for f in order], None))
    return 0


def main(tier, seed):
    out = common.Outcome(PROP, tier, seed)
    for sh in common.run_shards(PROP, tier, seed):
        out.merge(sh)
    progs = out.counters.get("programs", 0)
    if progs and out.counters.get("crashed", 0) > 0.05 * (progs + out.counters.get("permutation_runs", 0)):
        out.inconclusive.append(f"{out.counters['crashed']} runs ended in an internal error (C18): {out.counters.get('crash_kinds')}")
    return common.finish(out, RULE, ASSUMPTIONS, min_evals=100, min_distinct=20, required_counters=("programs_k2plus", "permutation_runs"))
