"""C10 - parts the user controls are never rewritten.

Displays mixing managed elements with Is(...), f-strings, dirty-equals expressions
(stub package), star-expressions and nested snapshot() calls; observations change
siblings, insert/remove elements around the unmanaged parts and make the unmanaged part
consistent or inconsistent; every approved subset F.  Monitors: unmanaged source segments
located with `ast` before and after; plain re-execution for the managed siblings.
"""

from __future__ import annotations

import ast
import collections
import itertools
import random

from .. import common
from .. import inproc
from .. import program
from ..inproc import HEADER_FULL

PROP = "C10"
CATS = ["create", "fix", "trim", "update"]
HEADER = HEADER_FULL + "from dirty_equals import IsInt, IsStr, IsList\n"
RULE = (
    "recording-style files of 3-6 `==` / `[k] ==` sites whose previous value is a list/tuple/dict/dataclass/attrs/namedtuple display (depth <= 4, pairwise distinct element values) "
    "mixing managed leaves with Is(U[n]), f-strings, IsInt()/IsStr() (stub dirty-equals; only under dict keys / keyword names because a wildcard inside a sequence makes the alignment ambiguous), containers holding *x / **x, and nested snapshot(v); observed value: per element "
    "keep / change (unmanaged: inconsistent) / remove, managed elements inserted around them, order preserved; run once per F (quick 5 of 16, thorough all). case = (unmanaged element, F); "
    "non-trivial = the enclosing snapshot received at least one change; distinct = (unmanaged kind, container kind path, action, F)."
)
ASSUMPTIONS = [
    "dirty-equals is not installed: a 30-line stub with the same class/instance equality protocol is used (the repository only tests isinstance/issubclass of DirtyEquals)",
    "an inconsistent unmanaged element of a *sequence* may legitimately disappear together with its element (delete+insert alignment); it is only asserted verbatim under surviving dict keys / keyword names and when consistent",
    "nested snapshots only reached while aligning can end in an internal error on this tree: such runs are C18's witnesses and counted as crashed",
]

_uid = itertools.count()


class E:
    def __init__(self, kind, **kw):
        self.kind = kind  # m is fstr dirty snap cont
        self.__dict__.update(kw)


def fresh_value(rng, used):
    while True:
        v = rng.choice([rng.randint(0, 500), "s%d" % rng.randint(0, 500), (rng.randint(0, 50), rng.randint(0, 50))])
        if v in (0, 3, 5, 7, "x"):
            # field defaults of the vp classes: a keyword argument whose observed value equals the default is
            # legitimately dropped by `update` together with an unmanaged expression it holds (thorough-tier false alarm)
            continue
        if repr(v) not in used:
            used.add(repr(v))
            return v


def gen_elem(rng, depth, used, U, allow_cont=True, in_seq=False):
    r = rng.random()
    if allow_cont and depth > 0 and r < 0.3:
        return gen_cont(rng, depth - 1, used, U)
    if r < 0.55:
        v = fresh_value(rng, used)
        return E("m", text=repr(v), value=repr(v))
    kind = rng.choice(["is", "is", "fstr", "snap"] if in_seq else ["is", "is", "fstr", "dirty", "snap"])
    if kind == "is":
        v = fresh_value(rng, used)
        n = len(U)
        U.append(repr(v))
        return E("is", text=f"Is(U[{n}])", value=repr(v), wrong=repr(fresh_value(rng, used)))
    if kind == "fstr":
        v = "s%d" % next(_uid)
        n = len(U)
        U.append(repr(v))
        return E("fstr", text=f'f"p{{U[{n}]}}q"', value=repr("p" + v + "q"), wrong=repr("other" + v))
    if kind == "dirty":
        which = rng.choice(["IsInt()", "IsStr()"])
        v = fresh_value(rng, used)
        while not isinstance(v, int if which == "IsInt()" else str):
            v = fresh_value(rng, used)
        wrong = repr([next(_uid)])
        return E("dirty", text=which, value=repr(v), wrong=wrong)
    v = fresh_value(rng, used)
    return E("snap", text=f"snapshot({v!r})", value=repr(v), wrong=repr(fresh_value(rng, used)))


def gen_cont(rng, depth, used, U):
    ck = rng.choice(["list", "list", "tuple", "dict", "DC", "AT", "NT"])
    star = rng.random() < 0.12
    if ck in ("list", "tuple"):
        items = [gen_elem(rng, depth, used, U, in_seq=True) for _ in range(rng.randint(1, 5))]
        return E("cont", ck=ck, items=items, star=star)
    if ck == "dict":
        keys = rng.sample(["'a'", "'b'", "1", "'c d'", "(1, 2)", "None"], rng.randint(1, 4))
        return E("cont", ck=ck, items=[(k, gen_elem(rng, depth, used, U)) for k in keys], star=star)
    fields = ["a"] + [f for f in ("b", "c") if rng.random() < 0.7]
    if ck == "NT" and "b" not in fields:
        fields.insert(1, "b")
    items = [(f, gen_elem(rng, depth, used, U)) for f in fields]
    pos = False
    if star:
        # layouts in front of the `**` that would produce a change of their own if the call were not frozen:
        # a positional first argument, a keyword that spells out the field's default
        pos = rng.random() < 0.5
        if ck in ("DC", "AT") and "b" not in fields and rng.random() < 0.6:
            d = {"DC": "5", "AT": "7"}[ck]
            items.insert(1, ("b", E("m", text=d, value=d)))
    return E("cont", ck=ck, items=items, star=star, pos=pos)


def handwrite(e, rng):
    """give some managed leaves a hand-written (non-canonical) spelling"""
    if e.kind == "m":
        if rng.random() < 0.6:
            e.text = f"{e.text} + 0" if e.text.lstrip("-").isdigit() else f"({e.text})"
        return
    if e.kind == "cont":
        for c in e.items:
            handwrite(c[1] if isinstance(c, tuple) else c, rng)


def old_text(e):
    if e.kind != "cont":
        return e.text
    if e.ck in ("list", "tuple"):
        parts = [old_text(c) for c in e.items]
        if e.star:
            parts.append("*[]")
        inner = ", ".join(parts)
        if e.ck == "tuple":
            return "(" + inner + ("," if len(parts) == 1 else "") + ")"
        return "[" + inner + "]"
    if e.ck == "dict":
        parts = [f"{k}: {old_text(c)}" for k, c in e.items]
        if e.star:
            parts.append("**{}")
        return "{" + ", ".join(parts) + "}"
    parts = [f"{f}={old_text(c)}" for f, c in e.items]
    if e.star:
        if getattr(e, "pos", False):
            parts[0] = old_text(e.items[0][1])
        parts.append("**{}")
    return e.ck + "(" + ", ".join(parts) + ")"


def consistent_value(e):
    """value expr the element evaluates to / is consistent with"""
    if e.kind != "cont":
        return e.value
    if e.ck in ("list", "tuple"):
        vals = [consistent_value(c) for c in e.items]
        if e.ck == "tuple":
            return "(" + ", ".join(vals) + ("," if len(vals) == 1 else "") + ")"
        return "[" + ", ".join(vals) + "]"
    if e.ck == "dict":
        return "{" + ", ".join(f"{k}: {consistent_value(c)}" for k, c in e.items) + "}"
    return e.ck + "(" + ", ".join(f"{f}={consistent_value(c)}" for f, c in e.items) + ")"


def unmanaged_inside(e):
    """all unmanaged segments inside e (an unmanaged element counts itself; a star container counts as one segment)"""
    if e.kind == "m":
        return []
    if e.kind != "cont":
        return [(e.kind, old_text(e))]
    if e.star:
        return [("star", old_text(e))]
    out = []
    for c in e.items:
        c = c[1] if isinstance(c, tuple) else c
        out += unmanaged_inside(c)
    return out


def observe(e, rng, used, st, path_kinds):
    """returns observed value expr; fills st: must_present (list of (kind, segment, pathsig, action)), inconsistent flag"""
    if e.kind == "m":
        if rng.random() < 0.35:
            st["dirty"] += 1
            return repr(fresh_value(rng, used))
        return e.value
    if e.kind != "cont":
        sig = "/".join(path_kinds)
        keyed = path_kinds and path_kinds[-1] in ("dict", "DC", "AT", "NT")
        if rng.random() < 0.3:
            # make it inconsistent
            st["dirty"] += 1
            if e.kind == "snap":
                st["must"].append((e.kind, "snapshot(<changed>", sig, "changed"))  # the nested call stays, its own argument is fixed
                st["snap_changed"] = True
                return e.wrong
            st["inconsistent"] = True
            if keyed:
                st["must"].append((e.kind, e.text, sig, "inconsistent-keyed"))
            return e.wrong
        st["must"].append((e.kind, e.text if e.kind != "snap" else e.text, sig, "consistent"))
        return e.value
    # container
    if e.star:
        st["must"].append(("star", segments(old_text(e))[0], "/".join(path_kinds + [e.ck]), "star"))
        if rng.random() < 0.5:
            st["dirty"] += 1
            # same type, different content (a different *type* replaces the whole value: the
            # unmanaged part then disappears together with the element that holds it)
            st["inconsistent"] = True
            extra = repr("star-container-differs-%d" % next(_uid))
            if e.ck in ("list", "tuple"):
                vals = [consistent_value(c) for c in e.items] + [extra]
                return ("(" + ", ".join(vals) + ",)") if e.ck == "tuple" else ("[" + ", ".join(vals) + "]")
            if e.ck == "dict":
                return "{" + ", ".join([f"{k}: {consistent_value(c)}" for k, c in e.items] + [f"'extra': {extra}"]) + "}"
            return e.ck + "(" + ", ".join([f"{f}={consistent_value(c) if f != 'a' else extra}" for f, c in e.items]) + ")"
        return consistent_value(e)
    pk = path_kinds + [e.ck]
    if e.ck in ("list", "tuple"):
        vals = []
        for c in e.items:
            r = rng.random()
            if r < 0.15:
                st["dirty"] += 1
                if unmanaged_inside(c):
                    # the alignment may pair the removed element with an inserted one (replace): the
                    # unmanaged part then stays and keeps the comparison failing - the documented exemption
                    st["inconsistent"] = True
                continue  # removed together with what it holds
            n_must, n_dirty = len(st["must"]), st["dirty"]
            vals.append(observe(c, rng, used, st, pk))
            if st["dirty"] != n_dirty:
                # an element of a sequence that differs may be deleted and re-inserted as a whole
                # (or recursed into): nothing inside it is guaranteed by the statement
                del st["must"][n_must:]
            if rng.random() < 0.2:
                st["dirty"] += 1
                vals.append(repr(fresh_value(rng, used)))
        if rng.random() < 0.2:
            st["dirty"] += 1
            vals.insert(0, repr(fresh_value(rng, used)))
        if e.ck == "tuple":
            return "(" + ", ".join(vals) + ("," if len(vals) == 1 else "") + ")"
        return "[" + ", ".join(vals) + "]"
    if e.ck == "dict":
        out = []
        for k, c in e.items:
            if rng.random() < 0.15:
                st["dirty"] += 1
                continue
            out.append(f"{k}: {observe(c, rng, used, st, pk)}")
        if rng.random() < 0.3:
            st["dirty"] += 1
            out.insert(rng.randint(0, len(out)), f"'new{next(_uid)}': {fresh_value(rng, used)!r}")
        if len(out) > 1 and rng.random() < 0.35:
            rng.shuffle(out)  # same keys, other insertion order: invisible to ==, entries are matched by key
            st["reordered"] = st.get("reordered", 0) + 1
        return "{" + ", ".join(out) + "}"
    out = []
    for f, c in e.items:
        out.append(f"{f}={observe(c, rng, used, st, pk)}")
    present = [f for f, _ in e.items]
    for f in ("b", "c"):
        if f not in present and rng.random() < 0.3:
            st["dirty"] += 1
            out.append(f"{f}={fresh_value(rng, used)!r}")
    return e.ck + "(" + ", ".join(out) + ")"


UNMANAGED_CALLS = {"Is", "IsInt", "IsStr", "IsList"}


def segments(arg_src):
    """unmanaged source segments of a snapshot argument, in source order (not descending into them)"""
    tree = ast.parse(arg_src.strip(), mode="eval").body
    src = arg_src.strip()
    out = []

    def has_star(n):
        if isinstance(n, (ast.List, ast.Tuple)):
            return any(isinstance(x, ast.Starred) for x in n.elts)
        if isinstance(n, ast.Dict):
            return any(k is None for k in n.keys)
        if isinstance(n, ast.Call):
            return any(isinstance(x, ast.Starred) for x in n.args) or any(k.arg is None for k in n.keywords)
        return False

    def visit(n):
        if isinstance(n, ast.Call) and isinstance(n.func, ast.Name) and n.func.id in UNMANAGED_CALLS:
            out.append(ast.get_source_segment(src, n))
            return
        if isinstance(n, ast.Call) and isinstance(n.func, ast.Name) and n.func.id == "snapshot":
            out.append(ast.get_source_segment(src, n))
            return
        if isinstance(n, ast.JoinedStr):
            out.append(ast.get_source_segment(src, n))
            return
        if has_star(n):
            seg = ast.get_source_segment(src, n)
            # nested snapshots inside a frozen container are still managed on their own: mask their arguments
            for sub in ast.walk(n):
                if isinstance(sub, ast.Call) and isinstance(sub.func, ast.Name) and sub.func.id == "snapshot" and sub is not n:
                    seg = seg.replace(ast.get_source_segment(src, sub), "snapshot(<own>)", 1)
            out.append(seg)
            return
        for c in ast.iter_child_nodes(n):
            visit(c)

    visit(tree)
    return out


def subsets_for(rng, tier):
    allf = [frozenset(c) for n in range(5) for c in itertools.combinations(CATS, n)]
    if tier == "thorough":
        return allf
    fixed = [frozenset({"create", "fix"}), frozenset(CATS), frozenset({"update"})]
    return fixed + rng.sample([f for f in allf if f not in fixed], 2)


def run_shard(args):
    tier = args.tier
    ncases = {"quick": 40, "thorough": 350}[tier]
    C = {"files": 0, "runs": 0, "crashed": 0, "unmanaged_checked": 0, "consistent_sites_reexecuted": 0, "by_kind": {}, "warnings_seen": {}, "crash_kinds": {}, "sites_with_changes": 0}
    out = {"evaluations": 0, "signatures": set(), "samples": [], "violations": [], "counters": C, "inconclusive": []}
    for c in range(ncases):
        rng = random.Random(f"{args.seed}/{PROP}/{args.shard}/{c}")
        U = []
        sites, metas = [], {}
        for i in range(rng.randint(3, 6)):
            used = set()
            for _ in range(30):
                root = gen_cont(rng, 3 if tier == "thorough" else 2, used, U)
                if unmanaged_inside(root):
                    break
            st = {"must": [], "inconsistent": False, "snap_changed": False, "dirty": 0}
            if rng.random() < 0.12:
                # evaluated at module level but never compared in this session (the snapshot of a deselected test):
                # only `update` can touch it - managed leaves get hand-written text - and every unmanaged part stays
                handwrite(root, rng)
                txt = old_text(root)
                st["must"] = [("never-compared", seg, "never-compared", "kept") for seg in segments(txt)]
                sites.append({"id": i, "op": "eq", "old": txt, "obs": [], "place": "module"})
                metas[i] = (root, st, txt)
                C["never_compared_sites"] = C.get("never_compared_sites", 0) + 1
                continue
            if rng.random() < 0.1:
                # `x in snapshot([...])`: the members that are tested stay as written (Is(...), f-strings), also under update
                elems = [gen_elem(rng, 0, used, U, allow_cont=False, in_seq=True) for _ in range(rng.randint(2, 5))]
                elems = [e for e in elems if e.kind in ("m", "is", "fstr")] or [E("m", text="1 + 0", value="1")]
                handwrite(E("cont", ck="list", items=elems, star=False), rng)
                txt = "[" + ", ".join(e.text for e in elems) + "]"
                tested = [e for e in elems if rng.random() < 0.7] or elems[:1]
                st["must"] = [(e.kind, e.text, "in-member", "tested") for e in tested if e.kind != "m"]
                obs_in = [e.value for e in tested] + ([repr(fresh_value(rng, used))] if rng.random() < 0.4 else [])
                sites.append({"id": i, "op": "in", "old": txt, "obs": obs_in, "place": rng.choice(["loop", "module"])})
                metas[i] = (None, st, txt)
                C["in_sites_with_unmanaged_members"] = C.get("in_sites_with_unmanaged_members", 0) + 1
                continue
            obs = observe(root, rng, used, st, [])
            txt = old_text(root)
            getitem = rng.random() < 0.25
            reps = 1 if rng.random() < 0.6 else rng.choice([2, 3])  # repeated evaluation: the argument is re-evaluated and unmanaged values refreshed
            if getitem:
                sites.append({"id": i, "op": "getitem", "child": "eq", "old": "{'key': " + txt + "}", "obs": [("'key'", obs)] * reps, "place": "loop"})
            else:
                sites.append({"id": i, "op": rng.choice(["eq", "eq", "req"]), "old": txt, "obs": [obs] * reps, "place": rng.choice(["loop", "helper", "module"])})
            if reps > 1:
                C["repeated_evaluation_sites"] = C.get("repeated_evaluation_sites", 0) + 1
            metas[i] = (root, st, txt)
        header = HEADER + "U = [" + ", ".join(U) + "]\n"
        src, order = program.build(sites, style="rec", tests=rng.randint(1, 2), header=header)
        C["files"] += 1
        for F in subsets_for(rng, tier):
            res = inproc.run({"test_a.py": src}, F)
            C["runs"] += 1
            if res.exec_exc:
                out["inconclusive"].append(f"module failed: {res.exec_exc}")
                break
            for w in res.warnings:
                C["warnings_seen"][w[0]] = C["warnings_seen"].get(w[0], 0) + 1
            if res.crashed():
                C["crashed"] += 1
                k = str((res.collect_exc or res.apply_exc)[::2])
                C["crash_kinds"][k] = C["crash_kinds"].get(k, 0) + 1
                continue
            new_src = res.files_after["test_a.py"].decode()
            wit = {"files": {"test_a.py": src}, "flags": sorted(F)}
            raised = [e for e in res.logs.get("test_a.py", []) if e[1] == "exc"]
            if raised:
                out["violations"].append({"kind": "comparison-raised", "detail": {"F": sorted(F), "events": raised[:4]}, "witness": wit, "finding": None})
                continue
            try:
                new_args, _ = program.outer_snapshot_args(new_src)
            except SyntaxError as e:
                out["violations"].append({"kind": "unparsable", "detail": {"error": str(e), "F": sorted(F), "new": new_src[:2500]}, "witness": wit, "finding": None})
                continue
            old_args, _ = program.outer_snapshot_args(src)
            if len(new_args) != len(old_args):
                out["violations"].append({"kind": "site-count-changed", "detail": {"F": sorted(F), "new": new_src[:2500]}, "witness": wit, "finding": None})
                continue
            fails_expected = set()
            for sid, oa, na in zip(order, old_args, new_args):
                root, st, txt = metas[sid]
                if oa != na:
                    C["sites_with_changes"] += 1
                old_segs = collections.Counter(segments(oa))
                new_segs = collections.Counter(segments(na))
                base = {"site": sid, "F": sorted(F), "old_arg": oa, "new_arg": na, "observed": sites[[s["id"] for s in sites].index(sid)]["obs"]}
                # A: nothing unmanaged is altered or invented
                extra = new_segs - old_segs
                for k in [k for k in extra if k.startswith("snapshot(")]:
                    del extra[k]  # a nested snapshot's own argument may be changed by its own changes
                if extra:
                    out["violations"].append({"kind": "unmanaged-expression-altered", "detail": {**base, "unexpected_segments": list(extra)}, "witness": wit, "finding": None})
                # B/C/D: what must be present
                must = collections.Counter()
                for kind, seg, sig, action in st["must"]:
                    must[seg] += 1
                    out["evaluations"] += 1
                    C["unmanaged_checked"] += 1
                    C["by_kind"][kind + ":" + action] = C["by_kind"].get(kind + ":" + action, 0) + 1
                    out["signatures"].add(f"{kind}/{sig}/{action}/{'+'.join(sorted(F)) or '-'}")
                n_changed = must.pop("snapshot(<changed>", 0)
                missing = must - new_segs
                if n_changed:
                    have = sum(v for k, v in new_segs.items() if k.startswith("snapshot("))
                    need = n_changed + sum(v for k, v in must.items() if k.startswith("snapshot("))
                    if have < need:
                        missing["<nested snapshot() call>"] = need - have
                if missing:
                    out["violations"].append({"kind": "unmanaged-expression-not-kept-verbatim", "detail": {**base, "missing_segments": list(missing.elements())}, "witness": wit, "finding": None})
                if st["inconsistent"]:
                    fails_expected.add(sid)
            if {"create", "fix"} <= F:
                logs, test_exc, exec_exc, _ = inproc.plain_run({"test_a.py": new_src})
                if exec_exc:
                    out["violations"].append({"kind": "rewritten-module-fails", "detail": {"error": exec_exc, "F": sorted(F), "new": new_src[:2500]}, "witness": wit, "finding": None})
                    continue
                for e in logs.get("test_a.py", []):
                    if e[0] in fails_expected:
                        continue
                    C["consistent_sites_reexecuted"] += 1
                    if not (e[1] == "ok" and e[3] is True):
                        out["violations"].append({"kind": "managed-sibling-not-repaired", "detail": {"site": e[0], "event": e, "F": sorted(F), "new": new_src[:2500]}, "witness": wit, "finding": None})
            if len(out["samples"]) < 2 and F == frozenset(CATS):
                out["samples"].append({"F": sorted(F), "old_args": old_args[:3], "observed": [s["obs"] for s in sites][:3], "new_args": new_args[:3]})
    # ---- a snapshot that is evaluated again (with other runtime values behind its Is(...)) before it is compared
    if args.shard < 4 or tier == "thorough":
        rng = random.Random(f"{args.seed}/{PROP}/late-compare/{args.shard}")
        a, b, k0, k1 = rng.sample(range(10, 99), 4)
        lsrc = (
            HEADER + f"U2 = [{a}, {b}]\n\n\ndef test_a():\n"
            "    for r in range(2):\n        s = snapshot([Is(U2[r]), 'name', 1 + 1])\n        if r == 0:\n            continue\n        rec(0, lambda: [U2[r], 'name', 2] == s)\n"
            f"    for r in range(2):\n        t = snapshot({{'v': Is(U2[r]), 'k': {k0}}})\n        if r == 0:\n            continue\n        rec(1, lambda: {{'v': U2[r], 'k': {k1}}} == t)\n"
            f"    for r in range(2):\n        u = snapshot([Is(U2[r]), {k0}])\n        if r == 0:\n            continue\n        rec(2, lambda: U2[r] in u)\n"
        )
        for F in subsets_for(rng, tier):
            res = inproc.run({"test_a.py": lsrc}, F)
            C["runs"] += 1
            if res.exec_exc or res.crashed():
                C["crashed"] += 1
                continue
            new_src = res.files_after["test_a.py"].decode()
            wit = {"files": {"test_a.py": lsrc}, "flags": sorted(F)}
            old_args, _ = program.outer_snapshot_args(lsrc)
            try:
                new_args, _ = program.outer_snapshot_args(new_src)
            except SyntaxError as e:
                out["violations"].append({"kind": "unparsable", "detail": {"error": str(e), "F": sorted(F), "new": new_src[:1500]}, "witness": wit, "finding": None})
                continue
            for oa, na in zip(old_args, new_args):
                out["evaluations"] += 1
                C["unmanaged_checked"] += 1
                C["late_compared_sites"] = C.get("late_compared_sites", 0) + 1
                out["signatures"].add(f"is/late-compare/kept/{'+'.join(sorted(F)) or '-'}")
                if collections.Counter(segments(oa)) != collections.Counter(segments(na)):
                    out["violations"].append({"kind": "unmanaged-expression-not-kept-verbatim", "detail": {"F": sorted(F), "old_arg": oa, "new_arg": na, "case": "evaluated again before the first comparison"}, "witness": wit, "finding": None})
            bad = [e for e in res.logs.get("test_a.py", []) if e[1] == "exc"]
            if bad:
                out["violations"].append({"kind": "comparison-raised", "detail": {"F": sorted(F), "events": bad[:3]}, "witness": wit, "finding": None})
    # ---- star-expressions that expand to exactly one / two elements (the container has as many values as element
    # nodes, so a length test does not see the star), in snapshots that are never compared, compared equal and
    # compared unequal (seeded round 6)
    if args.shard in (4, 5, 6, 7) or tier == "thorough":
        ssrc = (
            HEADER + "ONE = [7]\nTWO = [1, 2]\n"
            "S0 = snapshot([*ONE, 2])\nS1 = snapshot((*ONE, 'q'))\nS2 = snapshot([[*ONE, 1 + 1], 3])\nS3 = snapshot({'k': [*ONE, 0 + 2]})\n"
            "S4 = snapshot([[*ONE, 2], 1 + 2])\nS5 = snapshot([*TWO, 1 + 2])\nS6 = snapshot([*ONE, f'{ONE[0]}'])\n\n\ndef test_a():\n"
            "    rec(7, lambda: [7, 2] == snapshot([*ONE, 1 + 1]))\n"
            "    rec(8, lambda: [7, 3] == snapshot([*ONE, 2]))\n"
            "    rec(9, lambda: [1, 2, 5] == snapshot([*TWO, 2 + 3]))\n"
            "    rec(10, lambda: {'a': (7, 1), 'b': 4} == snapshot({'a': (*ONE, 0 + 1), 'b': 3}))\n"
        )
        stars = [["[*ONE, 2]"], ["(*ONE, 'q')"], ["[*ONE, 1 + 1]"], ["[*ONE, 0 + 2]"], ["[*ONE, 2]"], ["[*TWO, 1 + 2]"], ["[*ONE, f'{ONE[0]}']"], ["[*ONE, 1 + 1]"], ["[*ONE, 2]"], ["[*TWO, 2 + 3]"], ["(*ONE, 0 + 1)"]]
        import warnings as _w

        for F in [frozenset(["update"]), frozenset(CATS), frozenset(["fix"]), frozenset(["create", "fix"]), frozenset(["fix", "update"])]:
            with _w.catch_warnings():
                _w.simplefilter("ignore")
                res = inproc.run({"test_a.py": ssrc}, F)
            C["runs"] += 1
            wit = {"files": {"test_a.py": ssrc}, "flags": sorted(F)}
            if res.exec_exc or res.crashed():
                C["crashed"] += 1
                continue
            new_src = res.files_after["test_a.py"].decode()
            try:
                new_args, _ = program.outer_snapshot_args(new_src)
            except SyntaxError as e:
                out["violations"].append({"kind": "unparsable", "detail": {"error": str(e), "F": sorted(F), "new": new_src[:1500]}, "witness": wit, "finding": None})
                continue
            old_args, _ = program.outer_snapshot_args(ssrc)
            for oa, na, keep in zip(old_args, new_args, stars):
                out["evaluations"] += 1
                C["unmanaged_checked"] += 1
                C["short_star_sites"] = C.get("short_star_sites", 0) + 1
                out["signatures"].add(f"star/expands-to-as-many-values-as-nodes/{oa}/{'+'.join(sorted(F))}")
                if na is None or any(k not in na for k in keep):
                    out["violations"].append({"kind": "unmanaged-expression-not-kept-verbatim", "detail": {"F": sorted(F), "old_arg": oa, "new_arg": na, "case": "container with a star-expression that expands to one / two elements"}, "witness": wit, "finding": None})
    # ---- real sessions: snapshots created during collection (module level, parametrize arguments) and compared by a
    # later test; the fixture, the report and the per-category application of the plugin are in the loop
    from .. import session

    REAL = [(["--inline-snapshot=fix"], None), (["--inline-snapshot=create,fix,trim,update"], None), (["--inline-snapshot=review"], b"y\ny\ny\ny\n"), (["--inline-snapshot=update"], None), (["--inline-snapshot=fix,update"], None)]
    nreal = {"quick": 1 if args.shard < len(REAL) else 0, "thorough": 5}[tier]
    for c in range(nreal):
        rng = random.Random(f"{args.seed}/{PROP}/session/{args.shard}/{c}")
        fargs, stdin = REAL[(args.shard + c) % len(REAL)]
        n, n2, w1, r1, w2, r2, w3, r3 = rng.sample(range(10, 99), 8)
        src = (
            "import pytest\nfrom inline_snapshot import snapshot, Is\nfrom vp import *\n\n"
            f"HOST = 'h{n}'\nN = {n}\n"
            f"EXPECTED = snapshot(DC(a=Is(HOST), b={w1}, c=[f\"p{{N}}q\", snapshot({n2})]))\n"
            f"ROWS = snapshot([Is(N), {w2}, AT(a=Is(HOST), b=1+1)])\n"
            f"PARAMS = [(1, snapshot(DC(a=Is(1), b={w3}))), (2, snapshot(DC(a=Is(2), b={w3})))]\n\n\n"
            "def test_first():\n    assert True\n\n\n"
            f"def test_second():\n    assert DC(a=HOST, b={r1}, c=['p%dq' % N, {n2}]) == EXPECTED\n\n\n"
            f"def test_third():\n    assert [N, {r2}, AT(a=HOST, b=2)] == ROWS\n\n\n"
            f"@pytest.mark.parametrize('n,expected', PARAMS)\ndef test_param(n, expected):\n    assert DC(a=n, b={r3}) == expected\n"
        )
        proj = session.Project({"test_a.py": src})
        try:
            r = session.run_session(proj, fargs, env={"FORCE_COLOR": "true"} if stdin else None, stdin=stdin)
            rd = session.run_session(proj, ["--inline-snapshot=disable"])
        finally:
            proj.close()
        C["real_sessions"] = C.get("real_sessions", 0) + 1
        wit = {"files": {"test_a.py": src}, "args": fargs, "stdin": stdin.decode() if stdin else None}
        if any(a["kind"] == "sessionfinish_exception" for a in r.audit):
            out["violations"].append({"kind": "session-end-raised", "detail": {"events": [a for a in r.audit if a["kind"] == "sessionfinish_exception"]}, "witness": wit, "finding": None})
            continue
        new_src = r.after.get("test_a.py", b"").decode()
        try:
            old_args, _ = program.outer_snapshot_args(src)
            new_args, _ = program.outer_snapshot_args(new_src)
        except SyntaxError as e:
            out["violations"].append({"kind": "unparsable", "detail": {"error": str(e), "new": new_src[:1500]}, "witness": wit, "finding": None})
            continue
        if len(old_args) != len(new_args):
            out["violations"].append({"kind": "site-count-changed", "detail": {"new": new_src[:1500]}, "witness": wit, "finding": None})
            continue
        for k, (oa, na) in enumerate(zip(old_args, new_args)):
            old_segs = collections.Counter(segments(oa))
            new_segs = collections.Counter(segments(na))
            out["evaluations"] += sum(old_segs.values())
            C["unmanaged_checked"] += sum(old_segs.values())
            C["real_unmanaged_checked"] = C.get("real_unmanaged_checked", 0) + sum(old_segs.values())
            out["signatures"].add(f"real-session/collection-time-snapshot/{k}/{' '.join(fargs)}")
            missing = old_segs - new_segs
            extra = new_segs - old_segs
            if missing or extra:
                out["violations"].append({"kind": "unmanaged-expression-not-kept-verbatim(real session)", "detail": {"args": fargs, "old_arg": oa, "new_arg": na, "missing_segments": list(missing.elements()), "unexpected_segments": list(extra.elements())}, "witness": wit, "finding": None})
        approved_fix = stdin is not None or any("fix" in a for a in fargs)
        if approved_fix and rd.exit != 0:
            out["violations"].append({"kind": "managed-sibling-not-repaired(real session)", "detail": {"args": fargs, "outcomes": {t: o for t, o in rd.outcomes.items() if o != "passed"}, "new": new_src[:1500]}, "witness": wit, "finding": None})
    out["signatures"] = sorted(out["signatures"])
    return out


def replay(data):
    res = inproc.run(data["witness"]["files"], data["witness"]["flags"])
    print(res.collect_exc, res.apply_exc)
    print(res.files_after["test_a.py"].decode())
    return 0


def main(tier, seed):
    out = common.Outcome(PROP, tier, seed)
    stub = str(common.VERIF / "stubs")
    env = {"PYTHONPATH": ":".join([common.SRC, str(common.VERIF), stub])}
    for sh in common.run_shards(PROP, tier, seed, env_extra=env):
        out.merge(sh)
    runs = out.counters.get("runs", 0)
    if runs and out.counters.get("crashed", 0) > 0.15 * runs:
        out.inconclusive.append(f"{out.counters['crashed']} of {runs} runs ended in an internal error (C18): {out.counters.get('crash_kinds')}")
    return common.finish(out, RULE, ASSUMPTIONS, min_evals=500, min_distinct=50, required_counters=("unmanaged_checked", "consistent_sites_reexecuted", "sites_with_changes"))
