"""C11 - fixing a container keeps what did not change.

(a) icontract post-conditions on _align.align / add_x (valid + match-maximal alignment,
    equal common prefix matched) driven by ALL pairs of sequences over a 3-letter alphabet
    up to length 4 (quick) / 5 (thorough) plus random long pairs with duplicates;
(b) file level: previous displays whose elements are hand-written expressions, new values
    from edits, one run approving only `fix`; every element the statement guarantees
    (equal entry under a surviving key; equal common prefix and suffix of a sequence) must
    keep its source text, at every nesting depth.
"""

from __future__ import annotations

import ast
import itertools
import random

from .. import common
from .. import contracts
from .. import inproc
from .. import program
from ..inproc import HEADER_FULL

PROP = "C11"
RULE = (
    "(a) exhaustive: all pairs of sequences over {a,b,c} with lengths <= 4 (quick) / <= 5 (thorough) through align+add_x under icontract post-conditions, plus random pairs "
    "up to length 30 with duplicates and pairs of 101-400 elements that differ by 1-3 edits at the front / middle / end; (b) generated files: list/tuple/dict/dataclass/namedtuple displays (nesting <= 4) whose leaves are hand-written expressions "
    "(0+1, int('2'), 'a' 'b', (3), len('xx') ...), observed value = old value with elements inserted/deleted/replaced in the middle, keys added/removed, fields changed; "
    "run with F={fix}; case = one guaranteed element (path); non-trivial = its container received at least one fix change; distinct = (container kind path, edit kinds, position class)."
)
ASSUMPTIONS = [
    "only what the statement guarantees is asserted: equal entries under surviving keys / keyword names, and the equal common prefix and suffix of sequences; elements matched in the middle of a sequence and positional constructor arguments are not asserted",
    "source text of an element = ast.get_source_segment (parentheses around an element are not part of it)",
]

HAND = [("0+1", "1"), ("int('2')", "2"), ("'a' 'b'", "'ab'"), ("(3)", "3"), ("2*2", "4"), ("len('xxxxx')", "5"), ("-(-6)", "6"), ("'x'.upper()", "'X'"), ("7", "7"), ("'plain'", "'plain'"), ("1+1+6", "8"), ("[0+9][0]", "9"), ("None", "None"), ("1.5*2", "3.0"), ("b'q' b'r'", "b'qr'"), ("(\n0+10\n)", "10"), ("(  # why\n    11 + 0\n)", "11"), ("(12\n)", "12"), ("(\n'k' 'l')", "'kl'")]
FRESH = ["100", "'new'", "101", "[1, 2]", "{'z': 1}", "None", "(1, 2)", "-5", "'ab'", "3"]


class Node:
    """old-side structure: kind in leaf/list/tuple/dict/DC/NT"""

    def __init__(self, kind, text=None, value=None, items=None):
        self.kind = kind
        self.text = text  # leaf: hand-written text
        self.value = value  # leaf: canonical expr of its value
        self.items = items or []  # list/tuple: [Node]; dict: [(keytext, Node)]; DC/NT: [(field, Node)]


def gen_node(rng, depth):
    if depth <= 0 or rng.random() < 0.45:
        t, v = rng.choice(HAND)
        return Node("leaf", t, v)
    kind = rng.choice(["list", "list", "tuple", "dict", "dict", "DC", "NT"])
    if kind in ("list", "tuple"):
        return Node(kind, items=[gen_node(rng, depth - 1) for _ in range(rng.randint(1, 6))])
    if kind == "dict":
        keys = rng.sample(["'k1'", "'k2'", "3", "'x y'", "(1, 2)", "None", "'k5'"], rng.randint(1, 5))
        return Node("dict", items=[(k, gen_node(rng, depth - 1)) for k in keys])
    if kind == "DC":
        fields = ["a"] + [f for f in ("b", "c") if rng.random() < 0.7]
        return Node("DC", items=[(f, gen_node(rng, depth - 1)) for f in fields])
    fields = ["a", "b"] + (["c"] if rng.random() < 0.5 else [])
    return Node("NT", items=[(f, gen_node(rng, depth - 1)) for f in fields])


def old_text(n, rng):
    sp = lambda: rng.choice(["", " ", "  "])  # noqa
    if n.kind == "leaf":
        return n.text
    if n.kind in ("list", "tuple"):
        inner = ("," + sp()).join(old_text(c, rng) for c in n.items)
        if n.kind == "tuple":
            return "(" + inner + ("," if len(n.items) == 1 else rng.choice(["", ","])) + ")"
        return "[" + sp() + inner + rng.choice(["", ","]) + sp() + "]"
    if n.kind == "dict":
        return "{" + ("," + sp()).join(f"{k}{sp()}:{sp()}{old_text(c, rng)}" for k, c in n.items) + "}"
    return n.kind + "(" + ("," + sp()).join(f"{f}{rng.choice(['=', ' = '])}{old_text(c, rng)}" for f, c in n.items) + ")"


def old_value_expr(n):
    if n.kind == "leaf":
        return n.value
    if n.kind == "list":
        return "[" + ", ".join(old_value_expr(c) for c in n.items) + "]"
    if n.kind == "tuple":
        return "(" + ", ".join(old_value_expr(c) for c in n.items) + ("," if len(n.items) == 1 else "") + ")"
    if n.kind == "dict":
        return "{" + ", ".join(f"{k}: {old_value_expr(c)}" for k, c in n.items) + "}"
    return n.kind + "(" + ", ".join(f"{f}={old_value_expr(c)}" for f, c in n.items) + ")"


def edit(n, rng, path, guaranteed, edits, top=True):
    """returns new value expr; appends (path steps, old text) for elements whose text must survive.
    A path step is ('idx', i) / ('ridx', j) / ('key', keytext) / ('kw', field)."""
    if n.kind == "leaf":
        if rng.random() < 0.5 and not top:
            return n.value, False
        edits.add("leaf")
        return rng.choice([f for f in FRESH if f != n.value]), True
    if n.kind in ("list", "tuple"):
        k = len(n.items)
        p = rng.randint(0, k)
        q = rng.randint(0, k - p)
        mid = n.items[p : k - q]
        new_mid = []
        changed = False
        for c in mid:
            r = rng.random()
            if r < 0.35:
                edits.add("delete")
                changed = True
                continue
            if r < 0.6:
                new_mid.append(rng.choice(FRESH))
                edits.add("replace")
                changed = True
                continue
            new_mid.append(old_value_expr(c))
        for _ in range(rng.randint(0, 2)):
            new_mid.insert(rng.randint(0, len(new_mid)), rng.choice(FRESH))
            edits.add("insert")
            changed = True
        if not changed and top:
            new_mid.append(rng.choice(FRESH))
            edits.add("insert")
            changed = True
        vals = [old_value_expr(c) for c in n.items[:p]] + new_mid + [old_value_expr(c) for c in n.items[k - q :]]
        # which elements are guaranteed is decided at check time from the *evaluated* values
        # (equal common prefix P, then equal common suffix Q of what remains)
        guaranteed.append(("seq", path, n, list(vals)))
        if n.kind == "tuple":
            return "(" + ", ".join(vals) + ("," if len(vals) == 1 else "") + ")", changed
        return "[" + ", ".join(vals) + "]", changed
    # keyed containers
    out = []
    changed = False
    for key, c in n.items:
        r = rng.random()
        step = ("key", key) if n.kind == "dict" else ("kw", key)
        if r < 0.2 and n.kind == "dict":
            edits.add("key_delete")
            changed = True
            continue
        if r < 0.55:
            v, ch = edit(c, rng, path + [step], guaranteed, edits, top=False)
            if not ch:
                guaranteed.append((path + [step], c, n.kind))
            changed |= ch
            out.append((key, v))
        else:
            guaranteed.append((path + [step], c, n.kind))
            out.append((key, old_value_expr(c)))
    if n.kind == "dict":
        for _ in range(rng.randint(0, 2)):
            nk = rng.choice(["'n1'", "'n2'", "77"])
            if nk not in [k for k, _ in out] and nk not in [k for k, _ in n.items]:
                out.insert(rng.randint(0, len(out)), (nk, rng.choice(FRESH)))
                edits.add("key_insert")
                changed = True
        if not changed and top:
            out.append(("'forced'", "1"))
            changed = True
        if len(out) > 1 and rng.random() < 0.35:
            rng.shuffle(out)  # same entries in another insertion order: matched by key, equal entries keep their text
            edits.add("key_reorder")
        return "{" + ", ".join(f"{k}: {v}" for k, v in out) + "}", changed
    if not changed and top:
        f0, c0 = n.items[0]
        out[0] = (f0, "'forced'")
        pre = path + [("kw", f0)]
        guaranteed[:] = [g for g in guaranteed if (g[1] if g[0] == "seq" else g[0])[: len(pre)] != pre]
        changed = True
    return n.kind + "(" + ", ".join(f"{f}={v}" for f, v in out) + ")", changed


def navigate(node, steps, ns):
    for kind, arg in steps:
        if kind == "idx":
            if not isinstance(node, (ast.List, ast.Tuple)) or arg >= len(node.elts):
                return None
            node = node.elts[arg]
        elif kind == "ridx":
            if not isinstance(node, (ast.List, ast.Tuple)) or arg >= len(node.elts):
                return None
            node = node.elts[len(node.elts) - 1 - arg]
        elif kind == "key":
            if not isinstance(node, ast.Dict):
                return None
            want = ns.eval(arg)
            for kn, vn in zip(node.keys, node.values):
                try:
                    if ast.literal_eval(kn) == want and type(ast.literal_eval(kn)) is type(want):
                        node = vn
                        break
                except Exception:
                    continue
            else:
                return None
        elif kind == "kw":
            if not isinstance(node, ast.Call):
                return None
            for kw in node.keywords:
                if kw.arg == arg:
                    node = kw.value
                    break
            else:
                return None
    return node


# every existing-value site of these files has something to fix and (hand-written text) something to update:
# the prompts of a review session are therefore fix, then update
REAL_FIX_ONLY = [
    ("fix-and-report", ["--inline-snapshot=fix,report"], None),
    ("review-fix-yes-update-no", ["--inline-snapshot=review"], b"y\nn\nn\nn\n"),
    ("fix", ["--inline-snapshot=fix"], None),
]


def strip_parens(text):
    return text


def align_workload(mon, tier, shard, nshards, rng):
    from inline_snapshot import _align

    maxlen = {"quick": 4, "thorough": 5}[tier]
    seqs = [list(t) for n in range(maxlen + 1) for t in itertools.product("abc", repeat=n)]
    pairs = 0
    for idx, a in enumerate(seqs):
        if idx % nshards != shard:
            continue
        for b in seqs:
            _align.add_x(_align.align(a, b))
            pairs += 1
    nrand = {"quick": 300, "thorough": 6000}[tier]
    for _ in range(nrand):
        alpha = rng.choice(["ab", "abc", "abcdefgh"])
        a = [rng.choice(alpha) for _ in range(rng.randint(0, 30))]
        b = list(a)
        for _ in range(rng.randint(0, 6)):
            r = rng.random()
            if b and r < 0.4:
                del b[rng.randrange(len(b))]
            elif r < 0.8:
                b.insert(rng.randint(0, len(b)), rng.choice(alpha))
            elif b:
                b[rng.randrange(len(b))] = rng.choice(alpha)
        _align.add_x(_align.align(a, b))
        pairs += 1
    # long sequences (hundreds of elements, few edits, lengths differ, edits near the front, the middle or the
    # end): a size-dependent shortcut in align() is only reached by them (seeded round 6)
    nlong = {"quick": 6, "thorough": 60}[tier]
    for k in range(nlong):
        n = rng.choice([101, 120, 150, 260, 400])
        a = [f"e{i % rng.choice([7, 50, 1000])}" for i in range(n)]
        b = list(a)
        where = ["front", "middle", "end", "any"][(k + shard) % 4]
        for _ in range(rng.randint(1, 3)):
            lo, hi = {"front": (0, 3), "middle": (n // 2 - 2, n // 2 + 2), "end": (n - 4, n - 1), "any": (0, n - 1)}[where]
            p = min(rng.randint(lo, hi), len(b) - 1)
            if rng.random() < 0.6:
                del b[p]
            else:
                b.insert(p, "fresh")
        _align.add_x(_align.align(a, b))
        _align.add_x(_align.align(b, a))
        pairs += 2
    return pairs, len(seqs)


def run_shard(args):
    tier = args.tier
    ncases = {"quick": 70, "thorough": 2500}[tier]
    C = {"files": 0, "crashed": 0, "guaranteed_elements_checked": 0, "align_pairs_driven": 0, "contract_evals": {}, "edit_kinds": {}, "not_reachable_after_fix": 0, "crash_kinds": {}}
    out = {"evaluations": 0, "signatures": set(), "samples": [], "violations": [], "counters": C, "inconclusive": []}
    mon = contracts.install_align_contracts()
    rng0 = random.Random(f"{args.seed}/{PROP}/align/{args.shard}")
    C["align_pairs_driven"], nseq = align_workload(mon, tier, args.shard, args.nshards, rng0)
    out["evaluations"] += C["align_pairs_driven"]

    for c in range(ncases):
        rng = random.Random(f"{args.seed}/{PROP}/{args.shard}/{c}")
        specs = []
        for i in range(rng.randint(2, 5)):
            while True:
                n = gen_node(rng, 4 if tier == "thorough" else 3)
                if n.kind != "leaf":
                    break
            guaranteed, edits = [], set()
            new_expr, _ = edit(n, rng, [], guaranteed, edits)
            specs.append((i, n, old_text(n, rng), new_expr, guaranteed, edits))
        sites = [{"id": i, "op": "eq", "old": txt, "obs": [new], "place": rng.choice(["loop", "helper", "module"])} for i, n, txt, new, g, e in specs]
        src, order = program.build(sites, style="rec", tests=1)
        C["files"] += 1
        real_every = {"quick": 12, "thorough": 40}[tier]
        if c % real_every == real_every - 1:
            # a real session in which fix is approved and update is shown but not approved
            from .. import session

            mname, fargs, stdin = REAL_FIX_ONLY[(c // real_every + args.shard) % len(REAL_FIX_ONLY)]
            proj = session.Project({"test_a.py": src})
            try:
                r = session.run_session(proj, fargs, env={"FORCE_COLOR": "true"} if stdin else None, stdin=stdin)
            finally:
                proj.close()
            C["real_sessions_" + mname] = C.get("real_sessions_" + mname, 0) + 1
            wit = {"files": {"test_a.py": src}, "args": fargs, "stdin": stdin.decode() if stdin else None}
            if any(a["kind"] == "sessionfinish_exception" for a in r.audit):
                C["crashed"] += 1
                continue
            new_src = r.after.get("test_a.py", b"").decode()
        else:
            res = inproc.run({"test_a.py": src}, ("fix",))
            if res.exec_exc:
                out["inconclusive"].append(f"module failed: {res.exec_exc}")
                continue
            if res.crashed():
                C["crashed"] += 1
                k = str((res.collect_exc or res.apply_exc)[::2])
                C["crash_kinds"][k] = C["crash_kinds"].get(k, 0) + 1
                continue
            new_src = res.files_after["test_a.py"].decode()
            wit = {"files": {"test_a.py": src}, "flags": ["fix"]}
        try:
            args_new, calls_new = program.outer_snapshot_args(new_src)
        except SyntaxError as e:
            out["violations"].append({"kind": "unparsable", "detail": {"error": str(e), "new": new_src[:2000]}, "witness": wit, "finding": None})
            continue
        ns = inproc.Namespace()
        try:
            by_site = dict(zip(order, calls_new))
            for i, n, txt, new, guaranteed, edits in specs:
                call = by_site[i]
                if not call.args:
                    continue
                root = call.args[0]
                for e in edits:
                    C["edit_kinds"][e] = C["edit_kinds"].get(e, 0) + 1
                expanded = []
                for g in guaranteed:
                    if g[0] == "seq":
                        _, gpath, gn, new_vals = g
                        ov = [ns.eval(old_value_expr(c)) for c in gn.items]
                        nv = [ns.eval(v) for v in new_vals]
                        P = 0
                        while P < min(len(ov), len(nv)) and ov[P] == nv[P]:
                            P += 1
                        Q = 0
                        while Q < min(len(ov), len(nv)) - P and ov[len(ov) - 1 - Q] == nv[len(nv) - 1 - Q]:
                            Q += 1
                        expanded += [(gpath + [("idx", i2)], gn.items[i2], gn.kind) for i2 in range(P)]
                        expanded += [(gpath + [("ridx", j2)], gn.items[len(ov) - 1 - j2], gn.kind) for j2 in range(Q)]
                    else:
                        expanded.append(g)
                for steps, old_node, ckind in expanded:
                    tgt = navigate(root, steps, ns)
                    out["evaluations"] += 1
                    C["guaranteed_elements_checked"] += 1
                    out["signatures"].add(f"{'/'.join(s[0] for s in steps)}/{ckind}/{old_node.kind}/{'+'.join(sorted(edits))}")
                    old_root = ast.parse(txt.strip(), mode="eval").body
                    old_tgt = navigate(old_root, steps, ns)
                    want = ast.get_source_segment(txt.strip(), old_tgt) if old_tgt is not None else None
                    got = ast.get_source_segment(new_src, tgt) if tgt is not None else None
                    if want is None:
                        continue
                    if got != want:
                        out["violations"].append({"kind": "unchanged-element-lost-its-source-text", "detail": {"site": i, "path": steps, "old_text": want, "new_text": got, "old_arg": txt, "observed": new, "new_arg": args_new[order.index(i)]}, "witness": wit, "finding": None})
        finally:
            ns.close()
        if len(out["samples"]) < 2:
            out["samples"].append({"old_args": [s[2] for s in specs][:3], "observed": [s[3] for s in specs][:3], "new_args": args_new[:3], "guaranteed": [str(g[:2])[:80] for g in specs[0][4]][:6]})
    C["contract_evals"] = dict(mon.counts)
    for v in mon.failures[:20]:
        out["violations"].append({"kind": "contract:" + v["contract"], "detail": v, "witness": v, "finding": None})
    out["signatures"] = sorted(out["signatures"])
    out["extra"] = {"enumerated_subspace": f"all ordered pairs of sequences over 3 letters up to length {4 if tier == 'quick' else 5}: {nseq}^2 = {nseq * nseq} pairs through align/add_x", "enumerated_complete": True}
    return out


def replay(data):
    if "files" not in data.get("witness", {}):
        print(data)
        return 0
    res = inproc.run(data["witness"]["files"], ("fix",))
    print(res.files_after["test_a.py"].decode())
    return 0


def main(tier, seed):
    out = common.Outcome(PROP, tier, seed)
    for sh in common.run_shards(PROP, tier, seed):
        out.merge(sh)
    ce = out.counters.get("contract_evals", {})
    if not ce.get("align") or not ce.get("add_x"):
        out.inconclusive.append(f"alignment contracts were not evaluated: {ce}")
    files = out.counters.get("files", 0)
    if files and out.counters.get("crashed", 0) > 0.05 * files:
        out.inconclusive.append(f"{out.counters['crashed']} of {files} runs ended in an internal error (C18): {out.counters.get('crash_kinds')}")
    return common.finish(out, RULE, ASSUMPTIONS, min_evals=1000, min_distinct=30, required_counters=("guaranteed_elements_checked", "align_pairs_driven"))
