"""C12 - every str/bytes value is written as a literal that reads back identically.

Exhaustive short strings over an adversarial alphabet + random long strings/bytes, in every
position a string can be generated into, under four formatter configurations.  Oracle: the
rewritten module re-executed with inline-snapshot inactive (== on str/bytes is exact) and
icontract post-conditions on triple_quote / value_to_token that localise a failure.
"""

from __future__ import annotations

import ast
import itertools
import random
import sys
import tokenize

from .. import common
from .. import contracts
from .. import gen
from .. import oracles
from ..inproc import HEADER_FULL

PROP = "C12"
ALPHABET = [" ", "\n", "\r", "\t", "'", '"', "\\", "a", "é", "🐍", "\x00", "\x7f", "\u2028", "{", "#", "\x0c"]
POSITIONS = ["whole", "list", "tuple1", "dictkey", "dictval", "callarg", "ins_list", "ins_dict", "ins_call", "in_create", "in_fix", "sub_key", "sub_val", "nested"]
FORMATTERS = ["black", "noblack", "cmd_black", "cmd_cat"]
PIECES = ["'''", '"""', "\n", "\\", "a", '"', "'", " ", " ,"]
RULE = (
    "strings: ALL strings up to length 2 (quick) / 3 (thorough) over a 16-symbol adversarial alphabet and ALL products of up to 3 (quick) / 4 (thorough) multi-character pieces (both triple quotes, LF, backslash, quotes, blank) (alphabet: blank, LF, CR, TAB, both quotes, backslash, "
    "a, é, 🐍, NUL, DEL, U+2028, {, #, FF) plus seeded random str (full Unicode incl. lone surrogates excluded: not encodable in a UTF-8 file) and bytes up to length 200; "
    "each placed in 14 positions (whole value, list/tuple element, dict key/value, constructor argument, element/entry/argument inserted by a fix, "
    "`in` member created/appended, sub-snapshot key/value, nested) with formatter in {black, black missing, format-command black, format-command cat}. "
    "case = (string, position, formatter); non-trivial = a literal was generated for it; distinct = (string feature class, position, formatter)."
)
ASSUMPTIONS = [
    "lone surrogates are excluded: the test file is written as UTF-8 and cannot contain them un-escaped in the *observed value expression* (repr escapes them; included via \\ud800 escapes in value expressions only where Python accepts them)",
    "format-command configurations are sampled (a subprocess per file), black and black-missing get the full enumeration",
]


def features(s):
    if isinstance(s, bytes):
        f = "bytes:"
        s = s.decode("latin-1")
    else:
        f = "str:"
    if not s:
        return f + "empty"
    parts = []
    if "\n" in s:
        parts.append("nl" + ("+" if s.count("\n") > 1 else ""))
        if s.endswith("\n"):
            parts.append("endnl")
    if "\r" in s:
        parts.append("cr")
    if s[0] in " \t":
        parts.append("lb")
    if s[-1] in " \t":
        parts.append("tb")
    if " \n" in s:
        parts.append("blanknl")
    if "'" in s:
        parts.append("sq")
    if '"' in s:
        parts.append("dq")
    if "'''" in s or '"""' in s:
        parts.append("tq")
    if "\\" in s:
        parts.append("bs")
    if any(not c.isprintable() and c not in "\n\r\t" for c in s):
        parts.append("np")
    if any(ord(c) > 127 for c in s):
        parts.append("u")
    if s[-1] in "'\"":
        parts.append("endq")
    if len(s) > 40:
        parts.append("long")
    return f + "+".join(parts or ["plain"])


def site_for(i, s, pos):
    """Returns site dict for program-less direct rendering: (old text or None, observed expr, comparison text)."""
    r = repr(s)
    if pos == "whole":
        return None, r, "x == S"
    if pos == "list":
        return None, f"[1, {r}, 2]", "x == S"
    if pos == "tuple1":
        return None, f"({r},)", "x == S"
    if pos == "dictkey":
        return None, f"{{{r}: 1}}", "x == S"
    if pos == "dictval":
        return None, f"{{1: {r}}}", "x == S"
    if pos == "callarg":
        return None, f"DC(a={r})", "x == S"
    if pos == "ins_list":
        return "[1]", f"[1, {r}]", "x == S"
    if pos == "ins_dict":
        return "{1: 2}", f"{{1: 2, {r}: {r}}}", "x == S"
    if pos == "ins_call":
        return "DC(a=1)", f"DC(a=1, b={r})", "x == S"
    if pos == "in_create":
        return None, r, "x in S"
    if pos == "in_fix":
        return "[1]", r, "x in S"
    if pos == "sub_key":
        return None, r, "1 == S[x]"
    if pos == "sub_val":
        return None, r, "x == S[1]"
    if pos == "nested":
        return "[]", f"[{{'k': ({r}, [{r}])}}, NT(a={r}, b=[{r}])]", "x == S"
    raise AssertionError(pos)


def build(items):
    """items: list of (string, position).  One recording-style module."""
    lines = [HEADER_FULL, "O = ["]
    for s, pos in items:
        _, obs, _ = site_for(0, s, pos)
        lines.append(f"    {obs},")
    lines.append("]")
    lines.append("")
    lines.append("def test_a():")
    for i, (s, pos) in enumerate(items):
        old, _, cmp = site_for(i, s, pos)
        snap = "snapshot()" if old is None else f"snapshot({old})"
        lines.append(f"    x = O[{i}]")
        lines.append(f"    rec({i}, lambda: {cmp.replace('S', snap)})")
    return "\n".join(lines) + "\n"


def enumerated(maxlen):
    for n in range(0, maxlen + 1):
        for tup in itertools.product(ALPHABET, repeat=n):
            yield "".join(tup)


def random_string(rng):
    r = rng.random()
    n = rng.choice([1, 3, 5, 10, 40, 90, 200])
    if r < 0.35:
        return "".join(rng.choice(ALPHABET) for _ in range(n))
    if r < 0.7:
        out = []
        for _ in range(n):
            c = rng.choice([rng.randint(0, 0x7F), rng.randint(0x80, 0x7FF), rng.randint(0x800, 0xD7FF), rng.randint(0xE000, 0xFFFF), rng.randint(0x10000, 0x10FFFF)])
            out.append(chr(c))
        return "".join(out)
    if r < 0.85:
        return "".join(rng.choice(["\n", "\r\n", "\r", "\u2028", "\u2029", "\x85", "\x0b", "\x0c", "\x1c", "\x1d", "\x1e", "a", " "]) for _ in range(n))
    # bytes
    if rng.random() < 0.5:
        return bytes(rng.randint(0, 255) for _ in range(n))
    return bytes(rng.choice(b" \n\r\t'\"\\a\x00\xff") for _ in range(n))


def pyproject_for(fmt):
    if fmt == "cmd_black":
        return '[tool.inline-snapshot]\nformat-command="/venv/bin/python -m black -q --stdin-filename {filename} -"\n'
    if fmt == "cmd_cat":
        return '[tool.inline-snapshot]\nformat-command="cat"\n'
    return None


class no_black:
    def __enter__(self):
        self.saved = {k: v for k, v in sys.modules.items() if k == "black" or k.startswith("black.")}
        for k in self.saved:
            del sys.modules[k]
        sys.modules["black"] = None

    def __exit__(self, *a):
        del sys.modules["black"]
        sys.modules.update(self.saved)


def run_file(items, fmt):
    src = build(items)
    files = {"test_a.py": src}
    pp = pyproject_for(fmt)
    if pp:
        files["pyproject.toml"] = pp
    if fmt == "noblack":
        with no_black():
            return oracles.roundtrip(files, ("create", "fix"), "rec"), files
    return oracles.roundtrip(files, ("create", "fix"), "rec"), files


def run_shard(args):
    tier = args.tier
    maxlen = {"quick": 2, "thorough": 3}[tier]
    nrandom = {"quick": 60, "thorough": 3000}[tier]  # per shard
    per_file = 50
    out = {"evaluations": 0, "signatures": set(), "samples": [], "violations": [], "counters": {"enumerated_piece_strings": 0, "files": 0, "crashed": 0, "reexec_events": 0, "enumerated_strings": 0, "random_strings": 0, "by_formatter": {}, "contract_evals": {}}, "inconclusive": []}
    mon = contracts.install_string_contracts()
    rng = random.Random(f"{args.seed}/{PROP}/{args.shard}")
    work = []  # (string, pos, fmt)
    enum = list(enumerated(maxlen))
    mine = enum[args.shard :: args.nshards]
    out["counters"]["enumerated_strings"] = len(mine)
    for k, s in enumerate(mine):
        for pos in POSITIONS:
            work.append((s, pos, "black"))
        # black-missing: full enumeration on the positions that differ in code path
        for pos in ("whole", "ins_list", "sub_key", "nested"):
            work.append((s, pos, "noblack"))
        if k % 11 == 0:
            work.append((s, rng.choice(POSITIONS), rng.choice(["cmd_black", "cmd_cat"])))
    # second enumerated sub-space: products of multi-character pieces (both triple quotes, line
    # ends, backslash, quotes) - the shortest strings that reach the escaping corner cases of
    # the triple-quoted path
    pk = {"quick": 3, "thorough": 4}[tier]
    piece_strings = ["".join(t) for k in range(1, pk + 1) for t in itertools.product(PIECES, repeat=k)]
    for k, s in enumerate(piece_strings[args.shard :: args.nshards]):
        for pos in ("whole", "dictval", "ins_list"):
            work.append((s, pos, "black"))
        if k % 7 == 0:
            work.append((s, "nested", "noblack"))
    out["counters"]["enumerated_piece_strings"] = len(piece_strings[args.shard :: args.nshards])
    for _ in range(nrandom):
        s = random_string(rng)
        out["counters"]["random_strings"] += 1
        for pos in rng.sample(POSITIONS, 4):
            work.append((s, pos, rng.choice(["black", "black", "noblack", "cmd_cat" if rng.random() < 0.3 else "black"])))
    by_fmt = {}
    for s, pos, fmt in work:
        by_fmt.setdefault(fmt, []).append((s, pos))
    for fmt, lst in by_fmt.items():
        for off in range(0, len(lst), per_file):
            items = lst[off : off + per_file]
            (status, detail, res), files = run_file(items, fmt)
            out["counters"]["files"] += 1
            out["counters"]["by_formatter"][fmt] = out["counters"]["by_formatter"].get(fmt, 0) + len(items)
            if status == "crashed":
                # localise: rerun one by one
                status = "violation"
                detail = {"kind": "crashed", **detail}
            if status == "skip":
                out["inconclusive"].append(f"module failed: {detail}")
                continue
            out["evaluations"] += len(items)
            for s, pos in items:
                out["signatures"].add(f"{features(s)}/{pos}/{fmt}")
            if status == "ok":
                out["counters"]["reexec_events"] += detail["events"]
                if len(out["samples"]) < 2:
                    out["samples"].append({"formatter": fmt, "items": [(repr(s), p) for s, p in items[:6]], "rewritten_head": detail["new"][:600]})
                continue
            # bisect to single items so that each failing (string, position) is its own witness
            for s, pos in items:
                (st1, d1, _), f1 = run_file([(s, pos)], fmt)
                if st1 in ("violation", "crashed"):
                    out["violations"].append({"kind": d1.get("kind", st1), "detail": {"string": repr(s), "position": pos, "formatter": fmt, **{k: v for k, v in d1.items() if k != "new"}, "new": d1.get("new", "")[-700:]}, "witness": {"files": f1, "flags": ["create", "fix"]}, "finding": None})
    # ---- real sessions: the literal goes through the plugin's file writer; process locale UTF-8 / ASCII (UTF-8 mode off)
    from .. import session
    from .c03 import LOCALES

    if args.shard < len(LOCALES) or tier == "thorough":
        lname, lenv = LOCALES[args.shard % len(LOCALES)]
        rs = random.Random(f"{args.seed}/{PROP}/session/{args.shard}")
        strs = ["h\u00e9llo\nw\u00f6rld", "\u65e5\u672c \u2192 'x'", "\U0001f600 \"q\"", "plain"] + [random_string(rs) for _ in range(6)]
        strs = [x for x in strs if isinstance(x, str) and "\x00" not in x and "\r" not in x]
        body = "".join(f"\n\ndef test_{i}():\n    assert S[{i}] == snapshot()\n    assert [S[{i}], 1] == snapshot()\n" for i in range(len(strs)))
        src = "from inline_snapshot import snapshot\n\nS = " + ascii(strs) + "\n" + body
        proj = session.Project({"test_a.py": src}, with_vp=False)
        try:
            r1 = session.run_session(proj, ["--inline-snapshot=create"], env=lenv)
            r2 = session.run_session(proj, ["--inline-snapshot=disable"], env=lenv)
        finally:
            proj.close()
        out["counters"]["real_sessions_locale_" + lname] = out["counters"].get("real_sessions_locale_" + lname, 0) + 1
        out["evaluations"] += len(strs)
        out["signatures"].add(f"real-session/{lname}")
        wit = {"files": {"test_a.py": src}, "args": ["--inline-snapshot=create"], "env": lenv}
        raw = r1.after.get("test_a.py", b"")
        try:
            raw.decode("utf-8")
            bad_utf8 = False
        except UnicodeDecodeError:
            bad_utf8 = True
        if any(a["kind"] == "sessionfinish_exception" for a in r1.audit):
            out["violations"].append({"kind": "session-end-raised", "detail": {"locale": lname, "events": [a for a in r1.audit if a["kind"] == "sessionfinish_exception"], "file_size_after": len(raw)}, "witness": wit, "finding": None})
        elif bad_utf8 or r2.exit != 0:
            out["violations"].append({"kind": "created-literals-do-not-read-back(real session)", "detail": {"locale": lname, "valid_utf8": not bad_utf8, "exit": r2.exit, "outcomes": {t: o for t, o in r2.outcomes.items() if o != "passed"}, "stdout_tail": r2.stdout[-500:]}, "witness": wit, "finding": None})
    out["counters"]["contract_evals"] = dict(mon.counts)
    for v in mon.failures[:20]:
        out["violations"].append({"kind": "contract:" + v["contract"], "detail": v, "witness": v, "finding": None})
    out["signatures"] = sorted(out["signatures"])
    out["extra"] = {"enumerated_subspace": f"all strings of length <= {maxlen} over {len(ALPHABET)} symbols = {len(enum)} strings x {len(POSITIONS)} positions (black) + 4 positions (black missing); and all products of up to {pk} pieces from {PIECES!r} in 3 positions", "enumerated_complete": True}
    return out


def replay(data):
    files = data["witness"]["files"]
    fmt = data["detail"].get("formatter", "black")
    if fmt == "noblack":
        with no_black():
            st, d, _ = oracles.roundtrip(files, ("create", "fix"), "rec")
    else:
        st, d, _ = oracles.roundtrip(files, ("create", "fix"), "rec")
    print(st, d)
    return 1 if st in ("violation", "crashed") else 0


def main(tier, seed):
    out = common.Outcome(PROP, tier, seed)
    for sh in common.run_shards(PROP, tier, seed):
        out.merge(sh)
    ce = out.counters.get("contract_evals", {})
    if not ce.get("triple_quote") or not ce.get("value_to_token"):
        out.inconclusive.append(f"icontract post-conditions were not evaluated: {ce}")
    return common.finish(out, RULE, ASSUMPTIONS, min_evals=1000, min_distinct=100, required_counters=("reexec_events",))
