"""C13 - external storage stays consistent across any history of runs.

Real pytest sessions over generated histories of {edit outsourced data, add/remove a test,
add a file, run only one file, run with flags F / review answers} under hash-length and
storage-dir settings.  After every step the storage directory listing + contents, the
external("...") references found with `ast` in the test files and the session's audit log
are checked against the storage invariants; in-process probes drive DiscStorage lookups
with missing / ambiguous prefixes under an icontract class invariant.
"""

from __future__ import annotations

import ast
import hashlib
import random
import re

from .. import common
from .. import inproc
from .. import session

PROP = "C13"
RULE = (
    "histories of 4-8 steps; step = optional edit (change the outsourced data of a test, add a test, remove a test, add a second file, give two tests equal payloads, change hash-length in pyproject.toml, hand-shorten the hash prefix of a reference) + one real session with "
    "flags drawn from {none, create, fix, trim, create+fix, all four, review with 4 answers, disable}, optionally restricted to one test file; settings hash-length in {1,4,12,64,80} x "
    "storage-dir in {default, relative, absolute} x payload kinds {str, bytes, custom suffix}; case = (history, step); non-trivial = the step created, persisted or removed a stored file; "
    "distinct = (settings, flags, edit kind, storage events observed)."
)
ASSUMPTIONS = [
    "reference/data consistency (bytes behind a reference == outsourced data) is asserted for references with at least 6 hash digits; shorter prefixes collide by design ('the hash should be long enough'), for them the ambiguity must raise",
    "a test file 'takes part' in a session when it is collected and run (files restricted away on the command line do not)",
]

FLAGSETS = [
    ("none", [], None),
    ("create", ["--inline-snapshot=create"], None),
    ("fix", ["--inline-snapshot=fix"], None),
    ("trim", ["--inline-snapshot=trim"], None),
    ("create,fix", ["--inline-snapshot=create,fix"], None),
    ("all", ["--inline-snapshot=create,fix,trim,update"], None),
    ("review-yyyy", ["--inline-snapshot=review"], b"y\ny\ny\ny\n"),
    ("review-ynyn", ["--inline-snapshot=review"], b"y\nn\ny\nn\n"),
    ("review-nnnn", ["--inline-snapshot=review"], b"n\nn\nn\nn\n"),
    ("disable", ["--inline-snapshot=disable"], None),
    ("report", ["--inline-snapshot=report"], None),
]


def sha(b):
    return hashlib.sha256(b).hexdigest()


HELPER = "checks_shared.py"


class World:
    """the harness' view of the project: tests per file, each test = (payload expr, suffix or None, snapshot arg text or None)"""

    def __init__(self, rng, settings, plain=False):
        self.rng = rng
        self.settings = settings
        self.plain = plain  # scripted histories: no payloads that make a test (or the import) fail on their own
        self.files = {"test_a.py": {}}
        self.counter = 0
        for _ in range(rng.randint(2, 4)):
            self.add_test("test_a.py")

    def new_payload(self):
        self.counter += 1
        k = self.rng.choice(["str", "str", "bytes", "suffix"])
        if k == "str":
            return (repr(f"text {self.counter} é\n"), None)
        if k == "bytes":
            return (repr(b"\x00bin %d" % self.counter), None)
        return (repr(f"log {self.counter}"), self.rng.choice([".log", ".json", ".png"] if self.plain else [".log", ".json", ".png", ".tar.gz", ".min.js"]))  # multi-part suffixes are rejected by the tool: nothing may reference them

    def add_test(self, fname, payload=None):
        self.counter += 1
        prefix = "check_" if fname == HELPER else "test_"
        # module_level: the data is outsourced while the module is imported (a constant), not inside the test
        self.files.setdefault(fname, {})[f"{prefix}{self.counter}"] = {"payload": payload or self.new_payload(), "arg": None, "module_level": self.rng.random() < 0.2 and not self.plain}

    def source(self, fname, args=None):
        L = ["from inline_snapshot import snapshot, outsource, external", "from inline_snapshot import external as ext", "", "", "def _boom(x):", "    raise RuntimeError('bug in the code under test')", ""]
        if fname in getattr(self, "unimportable", ()):
            L.insert(0, "import module_that_does_not_exist  # the file cannot be imported at the moment")
        for name, t in self.files[fname].items():
            p, sfx = t["payload"]
            if t.get("broken"):
                p = f"_boom({p})"  # the test raises before its snapshot is evaluated
            call = f"outsource({p})" if sfx is None else f"outsource({p}, suffix={sfx!r})"
            if t.get("module_level") and not t.get("broken"):
                L += [f"DATA_{name} = {call}", ""]
                call = f"DATA_{name}"
            L += [f"def {name}():", f"    assert {call} == snapshot({t['arg'] or ''})", ""]
        if fname == "test_a.py" and HELPER in self.files:
            # the assertions (and the references) live in a module that is executed but not collected itself
            L.insert(0, "import checks_shared")
            for name in self.files[HELPER]:
                L += [f"def test_via_{name}():", f"    checks_shared.{name}()", ""]
        return "\n".join(L) + "\n"

    def sync_from_disk(self, proj):
        """read back the snapshot arguments the tool wrote"""
        for fname in self.files:
            text = (proj.dir / fname).read_text()
            tree = ast.parse(text)
            for node in tree.body:
                if isinstance(node, ast.FunctionDef) and node.name in self.files[fname]:
                    for sub in ast.walk(node):
                        if isinstance(sub, ast.Call) and isinstance(sub.func, ast.Name) and sub.func.id == "snapshot":
                            self.files[fname][node.name]["arg"] = ast.get_source_segment(text, sub.args[0]) if sub.args else None


def payload_bytes(p):
    v = eval(p)
    return v.encode("utf-8") if isinstance(v, str) else v


def references(text):
    out = []
    for n in ast.walk(ast.parse(text)):
        if isinstance(n, ast.Call) and isinstance(n.func, ast.Name) and n.func.id in ("external", "ext") and n.args and isinstance(n.args[0], ast.Constant):
            out.append(n.args[0].value)
    return out


def storage_files(snapshot, storage_rel):
    return {k[len(storage_rel) + 1 :]: v for k, v in snapshot.items() if k.startswith(storage_rel + "/") and not k.endswith(".gitignore")}


def matches(ref, name):
    # parsed more liberally than the tool does (any suffix): whatever reference ends up in a test file must resolve
    m = re.fullmatch(r"([0-9a-fA-F]*)\*?(\..*)", ref)
    if not m:
        return False
    h, sfx = m.groups()
    stem, dot, ext = name.rpartition(".")
    return name.startswith(h) and name.endswith(sfx) and "-new" not in name


SCRIPTS = [
    (12, [("none", "none"), ("change_data", "disable"), ("change_data", "report"), ("change_data", "disable")]),  # -new files left by a session must not survive the start of the next one, whatever its mode
    (12, [("none", "create"), ("break_all_tests", "trim"), ("none", "none")]),
    (12, [("none", "create"), ("break_import", "trim"), ("repair_import", "none"), ("none", "disable")]),
    (12, [("none", "create"), ("alias_reference", "trim"), ("none", "none"), ("none", "disable")]),
    (12, [("add_helper_check", "create"), ("none", "trim"), ("none", "none"), ("none", "disable")]),
    (12, [("none", "create"), ("same_bytes_other_suffix", "create"), ("none", "none"), ("none", "disable")]),
    (12, [("none", "all"), ("break_all_tests", "all"), ("none", "disable")]),
    (8, [("none", "create"), ("change_hash_length:16", "trim"), ("none", "none"), ("none", "disable")]),
    (12, [("none", "all"), ("shorten_reference", "trim"), ("none", "none")]),
    (12, [("none", "create,fix"), ("shorten_reference", "all"), ("change_hash_length:64", "trim"), ("none", "none")]),
]


def run_history(rng, args, out, C, hidx, script=None):
    hash_length = rng.choice([1, 4, 12, 12, 64, 80])
    sd_kind = rng.choice(["default", "relative", "absolute", "relative-glob-characters"])
    if script:
        hash_length = script[0]
    settings = {"hash_length": hash_length, "storage_dir": sd_kind}
    w = World(rng, dict(settings), plain=bool(script))
    proj = session.Project({}, with_vp=False)
    try:
        pp = ["[tool.inline-snapshot]", f"hash-length={hash_length}"]
        storage_rel = ".inline-snapshot/external"
        if sd_kind == "relative":
            pp.append('storage-dir="snaps/store"')
            storage_rel = "snaps/store/external"
        elif sd_kind == "relative-glob-characters":
            # a directory name is not a pattern
            pp.append('storage-dir="snaps [v1]/st*re"')
            storage_rel = "snaps [v1]/st*re/external"
        elif sd_kind == "absolute":
            pp.append(f'storage-dir="{proj.dir}/abs_store"')
            storage_rel = "abs_store/external"
        proj.write({"pyproject.toml": "\n".join(pp) + "\n"})
        steps = []
        for step in range(len(script[1]) if script else rng.randint(4, 8)):
            edit = rng.choice(["none", "change_data", "change_data", "add_test", "remove_test", "add_file", "equal_payloads", "change_hash_length", "shorten_reference", "break_test", "same_bytes_other_suffix", "alias_reference", "add_helper_check", "break_import", "repair_import"]) if step else "none"
            forced_len = None
            if script:
                edit, forced_flag = script[1][step]
                if ":" in edit:
                    edit, forced_len = edit.split(":")
                    forced_len = int(forced_len)
            fnames = list(w.files)
            f0 = rng.choice(fnames)
            if edit == "change_data" and w.files[f0]:
                t = rng.choice(list(w.files[f0].values()))
                t["payload"] = w.new_payload()
            elif edit == "add_test":
                w.add_test(f0)
            elif edit == "remove_test" and len(w.files[f0]) > 1:
                del w.files[f0][rng.choice(list(w.files[f0]))]
            elif edit == "add_file" and "test_b.py" not in w.files:
                w.add_test("test_b.py")
                w.add_test("test_b.py")
            elif edit == "equal_payloads" and len(fnames) > 1:
                src_t = rng.choice(list(w.files["test_a.py"].values()))
                w.add_test("test_b.py", payload=src_t["payload"])
            elif edit == "break_all_tests":
                # every test of the file raises before its snapshot: no snapshot() call of the file is evaluated
                for t in w.files["test_a.py"].values():
                    t["broken"] = True
                C["broken_test_steps"] = C.get("broken_test_steps", 0) + 1
            elif edit == "break_import":
                # a collection error: the file takes part in the session, none of its tests is executed
                w.unimportable = getattr(w, "unimportable", set()) | {f0 if f0 != HELPER else "test_a.py"}
                C["unimportable_file_steps"] = C.get("unimportable_file_steps", 0) + 1
            elif edit == "repair_import":
                w.unimportable = set()
            elif edit == "add_helper_check":
                w.add_test(HELPER)
                C["helper_module_steps"] = C.get("helper_module_steps", 0) + 1
            elif edit == "alias_reference" and w.files[f0]:
                # the user refers to the external through another name for the same function
                cands = [t for t in w.files[f0].values() if t["arg"] and t["arg"].startswith("external(")]
                if cands:
                    t = rng.choice(cands)
                    t["arg"] = "ext(" + t["arg"][len("external(") :]
                    C["alias_reference_steps"] = C.get("alias_reference_steps", 0) + 1
            elif edit == "same_bytes_other_suffix" and w.files[f0]:
                # the same bytes outsourced under another suffix are another stored file
                src_t = rng.choice(list(w.files[f0].values()))
                pexpr, sfx = src_t["payload"]
                other = rng.choice([x for x in (".csv", ".log", None) if x != sfx])
                w.add_test(f0, payload=(pexpr, other))
                C["same_bytes_other_suffix_steps"] = C.get("same_bytes_other_suffix_steps", 0) + 1
            elif edit == "break_test" and f0 != HELPER and w.files[f0]:
                # (only in collected test files: a helper module whose function raises before its snapshot is
                # evaluated is unknown to the tool and is not a "test file that took part")
                # a bug in the code under test: the test fails before its snapshot is reached (its file still takes part)
                cands = [t for t in w.files[f0].values() if t["arg"] and t["arg"].startswith("external(")] or list(w.files[f0].values())
                rng.choice(cands)["broken"] = True
                C["broken_test_steps"] = C.get("broken_test_steps", 0) + 1
            elif edit == "change_hash_length":
                hash_length = forced_len or rng.choice([x for x in (4, 8, 12, 16, 64, 80) if x != hash_length])
                pp[1] = f"hash-length={hash_length}"
                proj.write({"pyproject.toml": "\n".join(pp) + "\n"})
            elif edit == "shorten_reference":
                # a hand-shortened (still unique) hash prefix is a valid reference
                cands = [t for t in w.files[f0].values() if t["arg"] and t["arg"].startswith("external(")]
                if cands:
                    t = rng.choice(cands)
                    ref = ast.literal_eval(t["arg"][len("external(") : -1])
                    m = re.fullmatch(r"([0-9a-fA-F]*)\*?(\.[a-zA-Z0-9]*)", ref)
                    if m and len(m.group(1)) > 8:
                        t["arg"] = f'external("{m.group(1)[: rng.choice([6, 7, 8])]}*{m.group(2)}")'
            for fname in w.files:
                proj.write({fname: w.source(fname)})
            fname_flag, fargs, stdin = rng.choice(FLAGSETS)
            if edit in ("change_hash_length", "shorten_reference") and rng.random() < 0.6:
                fname_flag, fargs, stdin = FLAGSETS[3] if rng.random() < 0.5 else FLAGSETS[5]  # trim / all
            if script:
                fname_flag, fargs, stdin = next(f for f in FLAGSETS if f[0] == forced_flag)
            only = None
            if len(w.files) > 1 and rng.random() < 0.3 and not script:
                only = rng.choice([f for f in w.files if f != HELPER])
            sargs = list(fargs) + ([only] if only else [])
            env = {"FORCE_COLOR": "true"} if stdin else None
            r = session.run_session(proj, sargs, env=env, stdin=stdin)
            C["sessions"] += 1
            steps.append({"edit": edit, "flags": fname_flag, "only": only})
            wit = {"settings": settings, "steps": list(steps), "files_before_step": {k: v.decode("utf-8", "replace") for k, v in r.before.items() if k.endswith((".py", ".toml"))}, "args": sargs, "stdin": stdin.decode() if stdin else None}
            base = {"settings": settings, "step": step, "edit": edit, "flags": fname_flag, "only": only, "exit": r.exit}
            if r.timeout:
                out["inconclusive"].append("session timeout")
                break
            if any(a["kind"] == "sessionfinish_exception" for a in r.audit):
                out["violations"].append({"kind": "session-end-raised", "detail": {**base, "events": [a for a in r.audit if a["kind"] == "sessionfinish_exception"]}, "witness": wit, "finding": None})
                break
            w.sync_from_disk(proj)
            before = storage_files(r.before, storage_rel)
            after = storage_files(r.after, storage_rel)
            out["evaluations"] += 1
            events = []
            # I1 names are content hashes
            for name, data in after.items():
                C["stored_files_checked"] += 1
                stem = name.split(".", 1)[0]  # the suffix may have several parts (.tar.gz)
                h = stem[:-4] if stem.endswith("-new") else stem
                if h != sha(data):
                    out["violations"].append({"kind": "stored-file-name-is-not-the-sha256-of-its-bytes", "detail": {**base, "name": name, "sha256": sha(data)}, "witness": wit, "finding": None})
            # I4 -new files never survive the start of the next session
            stale = [n for n in after if "-new." in n and n in before]
            created_now = {a.get("path", "")[len(storage_rel) + 1 :] for a in r.audit if a["kind"] == "open_w" and a.get("path", "").startswith(storage_rel + "/")}
            stale = [n for n in stale if n not in created_now]
            if stale:
                out["violations"].append({"kind": "unreferenced-new-file-survived-session-start", "detail": {**base, "files": stale}, "witness": wit, "finding": None})
            if [n for n in before if "-new." in n]:
                events.append("pruned")
            # I3 persisted files appear only together with a written reference
            texts = {f: r.after[f].decode() for f in w.files if f in r.after}
            refs_after = [ref for t in texts.values() for ref in references(t)]
            new_persisted = [n for n in after if "-new." not in n and n not in before]
            for n in new_persisted:
                events.append("persisted")
                w.settings.get("_trimmed", set()).discard(n)
                if not any(matches(ref, n) for ref in refs_after):
                    out["violations"].append({"kind": "file-persisted-without-a-reference", "detail": {**base, "name": n, "references": refs_after}, "witness": wit, "finding": None})
            # I5 removal only by approved trim and only if unreferenced by participating files
            removed = [n for n in before if "-new." not in n and n not in after]
            trim_ok = fname_flag in ("trim", "all") or (fname_flag.startswith("review") and stdin.split(b"\n")[2:3] == [b"y"]) or fname_flag == "review-yyyy"
            participating = ([only] + ([HELPER] if only == "test_a.py" and HELPER in w.files else [])) if only else list(w.files)
            refs_part = [ref for f in participating if f in texts for ref in references(texts[f])]
            for n in removed:
                events.append("removed")
                w.settings.setdefault("_trimmed", set()).add(n)
                if not trim_ok:
                    out["violations"].append({"kind": "persisted-file-removed-without-approved-trim", "detail": {**base, "name": n}, "witness": wit, "finding": None})
                if any(matches(ref, n) for ref in refs_part):
                    out["violations"].append({"kind": "persisted-file-removed-although-referenced-by-a-participating-file", "detail": {**base, "name": n, "references": refs_part}, "witness": wit, "finding": None})
            # I2 bytes behind consistent references
            if True:
                for fname in participating:
                    for tname, t in w.files.get(fname, {}).items():
                        arg = t["arg"]
                        if not arg or not arg.startswith(("external(", "ext(")):
                            continue
                        ref = ast.literal_eval(arg[arg.index("(") + 1 : -1])
                        data = payload_bytes(t["payload"][0])
                        full = sha(data)
                        m = re.fullmatch(r"([0-9a-fA-F]*)\*?(\..*)", ref)
                        if not m or not full.startswith(m.group(1)):
                            continue  # reference belongs to older data (pending fix)
                        if len(m.group(1)) < 6:
                            continue  # short prefixes collide by design
                        C["references_checked"] += 1
                        cands = [n for n in after if matches(ref, n)]
                        if not cands and any(matches(ref, n) for n in w.settings.get("_trimmed", ())):
                            # trimmed (checked above: approved, unreferenced by the participating files) by a session this file did not take part in
                            C["references_to_legitimately_trimmed_files"] += 1
                            continue
                        if len(cands) != 1 or after[cands[0]] != data:
                            # the reference may have been written in an earlier step and the file trimmed by a run that did not include this file
                            out["violations"].append({"kind": "reference-does-not-resolve-to-the-outsourced-bytes", "detail": {**base, "test": tname, "reference": ref, "candidates": cands}, "witness": wit, "finding": None})
            if any(n for n in after if "-new." in n and n not in before):
                events.append("new")
            if events:
                out["signatures"].add(f"hl{hash_length}/{sd_kind}/{fname_flag}/{edit}/{'+'.join(sorted(set(events)))}/{'only' if only else 'allfiles'}")
                for e in set(events):
                    C["storage_events"][e] = C["storage_events"].get(e, 0) + 1
        if len(out["samples"]) < 1:
            out["samples"].append({"settings": settings, "steps": steps, "final_test_a": w.source("test_a.py")[:900]})
    finally:
        proj.close()


def lookup_probes(out, C):
    """in-process: prefix lookups with 0 / 1 / >1 matches under an icontract class invariant"""
    import icontract

    from inline_snapshot import _external

    evals = [0]

    def names_match_content(self):
        evals[0] += 1
        if not self.directory.exists():
            return True
        for f in self.directory.iterdir():
            if f.name == ".gitignore":
                continue
            stem = f.stem[:-4] if f.stem.endswith("-new") else f.stem
            if stem != sha(f.read_bytes()):
                return False
        return True

    class Broken(AssertionError):
        pass

    Storage = icontract.invariant(names_match_content, error=Broken)(_external.DiscStorage)
    d = inproc.new_dir("st")
    st = Storage(d / "external")
    from inline_snapshot._global_state import snapshot_env

    try:
        with snapshot_env() as state:
            state.storage = st
            datas = [f"payload {i}".encode() for i in range(40)]
            exts = []
            for data in datas:
                try:
                    exts.append(_external.outsource(data))
                except Broken as e:
                    out["violations"].append({"kind": "storage-invariant-broken", "detail": {"error": str(e)[:300]}, "witness": {}, "finding": None})
            for e in exts[::2]:
                st.persist(e._path)
            full = {sha(x): x for x in datas}
            for plen in (0, 1, 2, 3, 6, 64):
                for h, data in full.items():
                    prefix = h[:plen]
                    C["lookup_probes"] += 1
                    cands = [f for f in st.directory.iterdir() if f.name.startswith(prefix) and f.name.endswith(".bin")]
                    try:
                        got = st.read(prefix + "*.bin")
                        if len(cands) != 1:
                            out["violations"].append({"kind": "ambiguous-or-missing-prefix-resolved-to-data", "detail": {"prefix": prefix, "candidates": len(cands)}, "witness": {}, "finding": None})
                        elif got != cands[0].read_bytes():
                            out["violations"].append({"kind": "lookup-returned-other-data", "detail": {"prefix": prefix}, "witness": {}, "finding": None})
                    except _external.HashError:
                        if len(cands) == 1:
                            out["violations"].append({"kind": "unique-prefix-not-resolved", "detail": {"prefix": prefix}, "witness": {}, "finding": None})
            for bad in ("ffffffffffff*.bin", "zz*.bin", "*.nothing"):
                C["lookup_probes"] += 1
                try:
                    st.read(bad)
                    if not list(st.directory.glob(bad)):
                        out["violations"].append({"kind": "missing-name-resolved-to-data", "detail": {"name": bad}, "witness": {}, "finding": None})
                except _external.HashError:
                    pass
            st.prune_new_files()
            left = [f.name for f in st.directory.iterdir() if "-new" in f.name]
            if left:
                out["violations"].append({"kind": "prune-left-new-files", "detail": {"files": left}, "witness": {}, "finding": None})
    finally:
        import shutil

        shutil.rmtree(d, ignore_errors=True)
    C["invariant_evaluations"] += evals[0]


def run_shard(args):
    tier = args.tier
    nhist = {"quick": 1, "thorough": 25}[tier]
    C = {"references_to_legitimately_trimmed_files": 0, "sessions": 0, "stored_files_checked": 0, "references_checked": 0, "lookup_probes": 0, "invariant_evaluations": 0, "storage_events": {}}
    out = {"evaluations": 0, "signatures": set(), "samples": [], "violations": [], "counters": C, "inconclusive": []}
    for h in range(nhist):
        rng = random.Random(f"{args.seed}/{PROP}/{args.shard}/{h}")
        run_history(rng, args, out, C, h)
    if args.shard < len(SCRIPTS):
        rng = random.Random(f"{args.seed}/{PROP}/script/{args.shard}")
        run_history(rng, args, out, C, 1000 + args.shard, script=SCRIPTS[args.shard])
        C["scripted_histories"] = C.get("scripted_histories", 0) + 1
    if args.shard % 4 == 0:
        lookup_probes(out, C)
    out["signatures"] = sorted(out["signatures"])
    return out


def replay(data):
    import json

    print(json.dumps(data, indent=1)[:5000])
    return 0


def main(tier, seed):
    out = common.Outcome(PROP, tier, seed)
    for sh in common.run_shards(PROP, tier, seed):
        out.merge(sh)
    ev = out.counters.get("storage_events", {})
    for need in ("persisted", "removed", "pruned", "new"):
        if not ev.get(need):
            out.inconclusive.append(f"no history produced the storage event {need!r}")
    return common.finish(out, RULE, ASSUMPTIONS, min_evals=40, min_distinct=15, required_counters=("sessions", "stored_files_checked", "references_checked", "lookup_probes", "invariant_evaluations"))
