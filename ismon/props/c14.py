"""C14 - each snapshot() call site has its own state; repeated evaluation aggregates.

Programs with up to 40 call sites spread over lines (several per line), lambdas, nested
functions, comprehensions, helper functions, module level and two files; every site is
evaluated 1-6 times in a random global interleaving; observations carry the site id, so a
leak between sites identifies itself.  Oracle: size of the session's snapshot table and,
after create(+fix+trim), each argument evaluates to the aggregate of exactly its own
observations.  Arguments that change between evaluations must raise UsageError.
"""

from __future__ import annotations

import ast
import random

from .. import common
from .. import inproc
from .. import models
from .. import program
from ..inproc import HEADER_FULL

PROP = "C14"
RULE = (
    "2-file programs with 6-40 call sites in 8 placement forms (def, two lambdas on one line, two calls in one frame on one line, closure from a nested function created twice, "
    "comprehension, module-level snapshot used by a function, helper-function argument, method), ops ==, <=, >=, in, [k]; each site evaluated 1-6 times, all evaluations of all sites "
    "in one random interleaving; observations are tagged with the site id; half of the programs start from wrong/loose previous values (create+fix+trim), the other half from empty "
    "snapshots (create); plus sites whose argument changes between evaluations (unequal leaf / changed length / changed leaf type). case = site; non-trivial = evaluated >= 2 times "
    "or shares a line/function with another site; distinct = (placement form, op, evaluations, neighbours on the line)."
)
ASSUMPTIONS = [
    "in-process driver keeps every code object alive during a run (as pytest keeps imported test modules); key reuse after a module's code object is freed is examined by the real-session part of this check (thorough tier)",
    "equal-but-differently-typed re-evaluations (1 vs 1.0) are not 'a different value' and are not generated",
]

FORMS = ["def", "lambda2", "frame2", "closure", "comp", "module", "helper", "method"]
OPS = ["eq", "le", "ge", "in", "getitem", "getitem_le"]


def expr_for(op, s, x, snap):
    if op == "getitem":
        return f"x[1] == {snap}[x[0]]"
    if op == "getitem_le":
        return f"x[1] <= {snap}[x[0]]"
    return program.cmp_text(op, x, snap, "eq", "k")


def tagged(op, sid, n):
    """observation n of site sid (self-identifying)"""
    if op == "eq":
        return f"('s{sid}', 'const')"
    if op in ("le", "ge"):
        return f"({sid}, {n})"
    if op == "in":
        return f"'s{sid}:{n % 3}'"
    if op == "getitem_le":
        return f"('k{sid}:{n % 2}', ({sid}, {n}))"
    return f"('k{sid}:{n % 2}', 'v{sid}:{n % 2}')"


def old_for(op, sid, rng):
    """a wrong / loose previous value (also self-identifying)"""
    if op == "eq":
        return f"('s{sid}', 'old')"
    if op == "le":
        return rng.choice([f"({sid}, -1)", f"({sid}, 99)"])
    if op == "ge":
        return rng.choice([f"({sid}, 99)", f"({sid}, -1)"])
    if op == "in":
        return f"['s{sid}:0', 'old{sid}']"
    if op == "getitem_le":
        return f"{{'k{sid}:0': ({sid}, -1), 'unused{sid}': 1}}"
    return f"{{'k{sid}:0': 'old', 'unused{sid}': 1}}"


def build_file(sites, rng):
    """returns source; sites: list of dict(id, op, form, old)"""
    L = [HEADER_FULL, "F = {}", "def helper(x, s):", "    return x == s", ""]
    i = 0
    order = []
    pending = list(sites)
    while pending:
        s = pending.pop(0)
        sid, op = s["id"], s["op"]
        snap = "snapshot()" if s["old"] is None else f"snapshot({s['old']})"
        body = expr_for(op, s, "x", snap)
        form = s["form"]
        if form in ("lambda2", "frame2") and pending:
            t = pending.pop(0)
            tsnap = "snapshot()" if t["old"] is None else f"snapshot({t['old']})"
            tbody = expr_for(t["op"], t, "x", tsnap)
            t["form"] = form
            if form == "lambda2":
                L.append(f"F[{sid}] = lambda x: {body}; F[{t['id']}] = lambda x: {tbody}")
            else:
                L.append(f"def f_{sid}_{t['id']}(x, which):")
                L.append(f"    return ({body}) if which == 0 else ({tbody})")
                L.append(f"F[{sid}] = lambda x: f_{sid}_{t['id']}(x, 0); F[{t['id']}] = lambda x: f_{sid}_{t['id']}(x, 1)")
            order += [sid, t["id"]]
            s["neigh"] = t["neigh"] = 1
            continue
        if form in ("lambda2", "frame2"):
            form = s["form"] = "def"
        s["neigh"] = 0
        if form == "def":
            L += [f"def f_{sid}(x):", f"    return {body}", f"F[{sid}] = f_{sid}"]
        elif form == "closure":
            L += [f"def outer_{sid}():", "    def inner(x):", f"        return {body}", "    return inner", f"_a{sid}, _b{sid} = outer_{sid}(), outer_{sid}()", f"F[{sid}] = lambda x, c=[0]: (c.__setitem__(0, c[0] + 1), (_a{sid} if c[0] % 2 else _b{sid})(x))[1]"]
        elif form == "comp":
            L += [f"def f_{sid}(x):", f"    return [{body} for _ in range(1)][0]", f"F[{sid}] = f_{sid}"]
        elif form == "module":
            L += [f"S{sid} = {snap}", f"def f_{sid}(x):", f"    return {expr_for(op, s, 'x', 'S%d' % sid)}", f"F[{sid}] = f_{sid}"]
        elif form == "helper" and op == "eq":
            L += [f"def f_{sid}(x):", f"    return helper(x, {snap})", f"F[{sid}] = f_{sid}"]
        elif form == "method":
            L += [f"class C{sid}:", "    def m(self, x):", f"        return {body}", f"F[{sid}] = C{sid}().m"]
        else:
            s["form"] = "def"
            L += [f"def f_{sid}(x):", f"    return {body}", f"F[{sid}] = f_{sid}"]
        order.append(sid)
    L.append("")
    return "\n".join(L) + "\n", order


def run_shard(args):
    tier = args.tier
    ncases = {"quick": 35, "thorough": 1000}[tier]
    C = {"programs": 0, "sites": 0, "evaluations_scheduled": 0, "snapshot_table_checked": 0, "crashed": 0, "changed_arg_cases": {}, "forms": {}, "crash_kinds": {}}
    out = {"evaluations": 0, "signatures": set(), "samples": [], "violations": [], "counters": C, "inconclusive": []}
    for c in range(ncases):
        rng = random.Random(f"{args.seed}/{PROP}/{args.shard}/{c}")
        nsites = rng.randint(6, 40)
        with_old = rng.random() < 0.5
        sites = []
        for sid in range(nsites):
            op = rng.choice(OPS)
            sites.append({"id": sid, "op": op, "form": rng.choice(FORMS), "old": old_for(op, sid, rng) if with_old and rng.random() < 0.8 else None, "file": "mod_a.py" if sid % 2 == 0 else "mod_b.py"})
        files, orders = {}, {}
        for fname in ("mod_a.py", "mod_b.py"):
            fs = [s for s in sites if s["file"] == fname]
            # identical structure in both files provokes key collisions by line number / offset
            src, order = build_file(fs, rng)
            files[fname] = src
            orders[fname] = order
        # global interleaving
        sched = []
        evals = {}
        for s in sites:
            m = rng.randint(1, 6)
            evals[s["id"]] = m
            sched += [(s["id"], n) for n in range(m)]
        rng.shuffle(sched)
        by_id = {s["id"]: s for s in sites}
        lines = [HEADER_FULL, "import mod_a, mod_b", "F = dict(mod_a.F); F.update(mod_b.F)", "SCHED = ["]
        for sid, n in sched:
            lines.append(f"    ({sid}, {tagged(by_id[sid]['op'], sid, n)}),")
        lines += ["]", "def test_run():", "    for sid, x in SCHED:", "        rec(sid, lambda: F[sid](x))", ""]
        files["test_z_driver.py"] = "\n".join(lines) + "\n"
        F = ("create", "fix", "trim")
        C["programs"] += 1
        C["sites"] += nsites
        C["evaluations_scheduled"] += len(sched)
        res = run_project(files, F)
        wit = {"files": files, "flags": list(F)}
        if res.exec_exc:
            out["inconclusive"].append(f"module failed: {res.exec_exc}")
            continue
        if res.crashed():
            C["crashed"] += 1
            k = str((res.collect_exc or res.apply_exc)[::2])
            C["crash_kinds"][k] = C["crash_kinds"].get(k, 0) + 1
            continue
        C["snapshot_table_checked"] += 1
        if res.n_snapshots != nsites:
            out["violations"].append({"kind": "snapshot-table-size-differs-from-number-of-call-sites", "detail": {"sites": nsites, "table": res.n_snapshots}, "witness": wit, "finding": None})
        bad_events = [e for e in res.logs.get("test_z_driver.py", []) if e[1] != "ok"]
        if bad_events:
            out["violations"].append({"kind": "evaluation-raised", "detail": {"events": bad_events[:5]}, "witness": wit, "finding": None})
            continue
        ns = inproc.Namespace()
        try:
            for fname in ("mod_a.py", "mod_b.py"):
                new_src = res.files_after[fname].decode()
                try:
                    new_args, _ = program.outer_snapshot_args(new_src)
                except SyntaxError as e:
                    out["violations"].append({"kind": "unparsable", "detail": {"file": fname, "error": str(e), "new": new_src[:2000]}, "witness": wit, "finding": None})
                    continue
                if len(new_args) != len(orders[fname]):
                    out["violations"].append({"kind": "site-count-changed", "detail": {"file": fname}, "witness": wit, "finding": None})
                    continue
                for sid, arg in zip(orders[fname], new_args):
                    s = by_id[sid]
                    op = s["op"]
                    obs = [ns.eval(tagged(op, sid, n)) for n in range(evals[sid])]
                    p = models.MISSING if s["old"] is None else ns.eval(s["old"])
                    if op in ("getitem", "getitem_le"):
                        m = models.SiteModel("getitem", p, obs, "eq" if op == "getitem" else "le")
                    else:
                        m = models.SiteModel(op, p, obs)
                    want = m.after(F)
                    got = models.MISSING if arg is None else ns.eval(arg)
                    out["evaluations"] += 1
                    C["forms"][s["form"]] = C["forms"].get(s["form"], 0) + 1
                    if evals[sid] >= 2 or s.get("neigh"):
                        out["signatures"].add(f"{s['form']}/{op}/{evals[sid]}/{s.get('neigh', 0)}/{'old' if s['old'] else 'new'}")
                    if not models.same_value(m.op, want, got):
                        out["violations"].append({"kind": "site-value-is-not-the-aggregate-of-its-own-observations", "detail": {"site": sid, "file": fname, "form": s["form"], "op": op, "evaluations": evals[sid], "expected": repr(want)[:300], "got": repr(got)[:300] if got is not models.MISSING else "<empty>"}, "witness": wit, "finding": None})
        finally:
            ns.close()
        if len(out["samples"]) < 1:
            out["samples"].append({"mod_a_before": files["mod_a.py"][:1200], "schedule_head": sched[:12], "mod_a_after": res.files_after["mod_a.py"].decode()[:1200]})

    # ---- arguments that change between evaluations
    CHANGED = {
        "unequal-leaf": ("for i in range(2):\n        rec(1, lambda: 5 == snapshot(i))", "int"),
        "unequal-leaf-nested": ("for i in range(2):\n        rec(1, lambda: [1, {'a': 5}] == snapshot([1, {'a': i}]))", "nested"),
        "unequal-leaf-str": ("for i in range(2):\n        rec(1, lambda: 'v' == snapshot('v%d' % i))", "str"),
        "changed-length": ("for i in range(2):\n        rec(1, lambda: [0] == snapshot([0] * (i + 1)))", "list"),
        "changed-dict-keys": ("for i in range(2):\n        rec(1, lambda: {0: 1} == snapshot({i: 1}))", "dict"),
        "changed-leaf-type": ("for i in range(2):\n        rec(1, lambda: 1 == snapshot([1, 'a'][i]))", "type"),
        "changed-in-bound": ("for i in range(2):\n        rec(1, lambda: 5 <= snapshot(10 + i))", "bound"),
        "changed-in-collection": ("for i in range(2):\n        rec(1, lambda: 5 in snapshot([5, i]))", "collection"),
        "changed-subsnapshot": ("for i in range(2):\n        rec(1, lambda: 5 == snapshot({'k': 5 + i})['k'])", "sub"),
        "changed-call-arg": ("for i in range(2):\n        rec(1, lambda: DC(a=1) == snapshot(DC(a=1 + i)))", "call"),
    }
    for name, (body, _) in CHANGED.items():
        for F in ((), ("fix",), ("create", "fix", "trim", "update")):
            src = HEADER_FULL + "def test_a():\n    " + body + "\n"
            res = inproc.run({"test_a.py": src}, F)
            ev = res.logs.get("test_a.py", [])
            out["evaluations"] += 1
            C["changed_arg_cases"][name] = C["changed_arg_cases"].get(name, 0) + 1
            out["signatures"].add(f"changed-argument/{name}/{'+'.join(F) or '-'}")
            wit = {"files": {"test_a.py": src}, "flags": list(F)}
            if len(ev) != 2 or not (ev[1][1] == "exc" and ev[1][2] == "UsageError"):
                out["violations"].append({"kind": "changed-argument-not-reported-as-UsageError", "detail": {"case": name, "F": list(F), "events": ev}, "witness": wit, "finding": None})
            if res.crashed():
                out["violations"].append({"kind": "changed-argument-crashes-session-end", "detail": {"case": name, "F": list(F), "collect": res.collect_exc, "apply": res.apply_exc}, "witness": wit, "finding": None})
    # ---- real sessions: module-level snapshots at the same position of several identically laid
    # out files (the key is (id(code), f_lasti): a freed module code object could be re-used)
    if args.shard < (2 if tier == "quick" else 16):
        from .. import session

        rng = random.Random(f"{args.seed}/{PROP}/session/{args.shard}")
        nfiles = rng.randint(4, 9)
        files = {}
        for i in range(nfiles):
            files[f"test_m{i}.py"] = f"from inline_snapshot import snapshot\n\ns = snapshot()\nt = snapshot()\n\ndef test_a():\n    assert ('f{i}', 's') == s\n    for n in range(3):\n        assert ('f{i}', n) <= t\n"
        proj = session.Project(files, with_vp=False)
        try:
            r = session.run_session(proj, ["--inline-snapshot=create"])
        finally:
            proj.close()
        C["real_sessions"] = C.get("real_sessions", 0) + 1
        wit = {"files": files, "args": ["--inline-snapshot=create"]}
        if any(a["kind"] == "sessionfinish_exception" for a in r.audit):
            out["violations"].append({"kind": "session-end-raised", "detail": {"events": [a for a in r.audit if a["kind"] == "sessionfinish_exception"]}, "witness": wit, "finding": None})
        for i in range(nfiles):
            out["evaluations"] += 1
            out["signatures"].add(f"real-session/module-level/{nfiles}files")
            text = r.after.get(f"test_m{i}.py", b"").decode()
            want_s, want_t = f"s = snapshot((\"f{i}\", \"s\"))", f"t = snapshot((\"f{i}\", 2))"
            if want_s not in text or want_t not in text:
                out["violations"].append({"kind": "module-level-site-value-is-not-its-own-aggregate(real session)", "detail": {"file": f"test_m{i}.py", "expected_lines": [want_s, want_t], "got": text[:400], "stdout_tail": r.stdout[-400:]}, "witness": wit, "finding": None})
    # ---- real sessions: the aggregation forms the statement names, as pytest produces them (parametrised tests,
    # several tests sharing a module-level snapshot, equally named methods of two classes, a helper in another module)
    if (2 <= args.shard < 6) if tier == "quick" else True:
        from .. import session

        for c in range(1 if tier == "quick" else 4):
            rng = random.Random(f"{args.seed}/{PROP}/constructs/{args.shard}/{c}")
            files, expected = pytest_constructs_project(rng)
            proj = session.Project(files, with_vp=False)
            try:
                r = session.run_session(proj, ["--inline-snapshot=create"])
                r2 = session.run_session(proj, ["--inline-snapshot=disable"])
            finally:
                proj.close()
            C["real_sessions"] = C.get("real_sessions", 0) + 2
            wit = {"files": files, "args": ["--inline-snapshot=create"]}
            if any(a["kind"] == "sessionfinish_exception" for a in r.audit):
                out["violations"].append({"kind": "session-end-raised", "detail": {"events": [a for a in r.audit if a["kind"] == "sessionfinish_exception"]}, "witness": wit, "finding": None})
                continue
            for fname, wants in expected.items():
                text = r.after.get(fname, b"").decode()
                try:
                    _, calls = program.outer_snapshot_args(text)
                    got = [eval(ast.get_source_segment(text, cl.args[0]), {}) if cl.args else "<empty>" for cl in calls]
                except Exception as e:
                    out["violations"].append({"kind": "rewritten-file-unusable(real session)", "detail": {"file": fname, "error": repr(e), "text": text[:1500]}, "witness": wit, "finding": None})
                    continue
                for (label, want, unordered), g in zip(wants, got + ["<missing>"] * len(wants)):
                    out["evaluations"] += 1
                    out["signatures"].add(f"real-session/construct/{label}")
                    C["construct_sites_checked"] = C.get("construct_sites_checked", 0) + 1
                    ok = (sorted(g) == sorted(want)) if unordered and isinstance(g, list) else (g == want and type(g) is type(want))
                    if not ok:
                        out["violations"].append({"kind": "site-value-is-not-its-own-aggregate(real session)", "detail": {"file": fname, "site": label, "expected": repr(want), "got": repr(g), "text": text[:1800]}, "witness": wit, "finding": None})
            if r2.exit != 0:
                out["violations"].append({"kind": "disabled-session-fails-after-create(real session)", "detail": {"exit": r2.exit, "outcomes": {k: v for k, v in r2.outcomes.items() if v != "passed"}, "stdout_tail": r2.stdout[-600:]}, "witness": wit, "finding": None})
    out["signatures"] = sorted(out["signatures"])
    return out


def pytest_constructs_project(rng):
    """returns (files, {file: [(label, expected value, unordered?) in textual order of the snapshot() calls]})"""
    ns = rng.sample(range(1, 60), 3)
    ks = rng.sample(["a", "b", "c", "d"], 2)
    vs = rng.sample(range(100, 200), 2)
    sh = rng.sample(range(10, 50), 3)
    a, b = rng.sample(["A", "B", "alpha", "beta", "x y"], 2)
    rep = rng.randint(0, 9)
    h1, h2 = rng.sample(range(300, 400), 2)
    helper = "from inline_snapshot import snapshot\n\n\ndef upper_bound(x):\n    return x <= snapshot()\n\n\ndef same(x, s):\n    return x == s\n"
    t1 = f"""import pytest
from inline_snapshot import snapshot
from helper_mod import same, upper_bound

shared = snapshot()


@pytest.mark.parametrize("n", {ns!r})
def test_param_le(n):
    assert n <= snapshot()


@pytest.mark.parametrize("n", {ns!r})
def test_param_in(n):
    assert n in snapshot()


@pytest.mark.parametrize("k,v", {list(zip(ks, vs))!r})
def test_param_getitem(k, v):
    assert snapshot()[k] == v


@pytest.mark.parametrize("x", {sh!r})
def test_shared(x):
    assert x >= shared


def test_shared_again():
    assert {max(sh) + 5} >= shared


class TestA:
    def test_value(self):
        assert {a!r} == snapshot()


class TestB:
    def test_value(self):
        assert {b!r} == snapshot()


@pytest.fixture
def val(request):
    return request.param


@pytest.mark.parametrize("val", [{rep}, {rep}], indirect=True)
def test_same_value_twice(val):
    assert val == snapshot()


def test_helper_first():
    assert upper_bound({h1})
    assert same({h1}, snapshot())
"""
    t2 = f"""from inline_snapshot import snapshot
from helper_mod import same, upper_bound


class TestA:
    def test_value(self):
        assert {b!r} == snapshot()


def test_helper_second():
    assert upper_bound({h2})
    assert same({h2}, snapshot())
"""
    expected = {
        "test_one.py": [("module-level-shared-by-tests", min(sh), False), ("parametrised-le", max(ns), False), ("parametrised-in", list(ns), True), ("parametrised-getitem", dict(zip(ks, vs)), False), ("class-A-method", a, False), ("class-B-same-method-name", b, False), ("indirect-param-same-value", rep, False), ("helper-argument", h1, False)],
        "test_two.py": [("other-file-same-class-and-method-name", b, False), ("helper-argument-2", h2, False)],
        "helper_mod.py": [("helper-shared-by-two-files", max(h1, h2), False)],
    }
    return {"test_one.py": t1, "test_two.py": t2, "helper_mod.py": helper}, expected


def run_project(files, F):
    """like inproc.run, but test_a/test_b are imported by the driver module (they must stay importable modules)"""
    return inproc.run(files, F, call_tests=True)


def replay(data):
    res = inproc.run(data["witness"]["files"], data["witness"]["flags"])
    print(res.logs, res.collect_exc, res.apply_exc)
    for k, v in res.files_after.items():
        print("=====", k)
        print(v.decode())
    return 0


def main(tier, seed):
    out = common.Outcome(PROP, tier, seed)
    for sh in common.run_shards(PROP, tier, seed):
        out.merge(sh)
    progs = out.counters.get("programs", 0)
    if progs and out.counters.get("crashed", 0) > 0.05 * progs:
        out.inconclusive.append(f"{out.counters['crashed']} of {progs} runs ended in an internal error (C18): {out.counters.get('crash_kinds')}")
    return common.finish(out, RULE, ASSUMPTIONS, min_evals=300, min_distinct=30, required_counters=("snapshot_table_checked", "evaluations_scheduled"))
