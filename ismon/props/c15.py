"""C15 - faults while rewriting never leave a half-written file or a dangling external.

Level: fault enumeration.  A recording session (sys.monitoring PY_START on ~25 functions +
audit events, inside pytest_sessionfinish) yields the boundary sequence of a 2-file project
with externals and changes in all categories.  Then one real session per (boundary index x
fault kind in {raise at entry, kill the process at entry}) from a fresh copy of the project;
plus formatter faults (black raising / returning garbage / returning nothing; format-command
with non-zero exit / garbage on stdout / empty stdout).  Oracle: every test file on disk is
its old or its complete fault-free new content and parses; after a simulated next-session
start (prune of -new files) every external() reference still resolves; formatter failures
degrade to correct code + a reported problem; the session state stack is popped; the
fault-free trace has all persists before the first write of a test file.
"""

from __future__ import annotations

import ast
import hashlib
import random
import re

from .. import common
from .. import session

PROP = "C15"
RULE = (
    "project variants {black-clean files, unclean files, format-command (cat: a subprocess formatter that changes nothing), hash-length=64 (complete hash names)} x flag sets {create,fix,trim,update / create,fix}: 2 test files with 3 outsourced externals, "
    "pending create/fix/trim/update changes and one HasRepr value needing an import; fault space = every boundary of the recorded session-end trace (quick: every distinct boundary "
    "name x position class first/middle/last occurrence; thorough: every index) x {raise, kill}, plus 3 black faults x call index and 8 format-command faults; case = one faulted session; "
    "non-trivial = the fault was actually injected (inject event in the audit log / formatter fault observed); distinct = (boundary name, position class, fault kind, variant)."
)
ASSUMPTIONS = [
    "faults are injected at call boundaries, i.e. before open(..,'bw') truncates; an OS-level failure of the single write() between truncate and close is outside the statement's fault list and only covered by the trace-shape assertion",
    "the expected complete new content of a file is what the fault-free session with the same flags wrote",
]


def sha(b):
    return hashlib.sha256(b).hexdigest()


def project(variant, rng):
    files = {}
    for i, name in enumerate(["test_one.py", "test_two.py"]):
        L = ["# tests f\u00fcr snapshots \u2013 \u2713 (non-ASCII text outside the snapshots)", "from inline_snapshot import snapshot, outsource, external", "from helper_types import Weird", "", ""]
        L += [f"def test_create_{i}():", f"    assert {i} + 5 == snapshot()", "", ""]
        L += [f"def test_fix_{i}():", f"    assert [1, {i}, 3] == snapshot([1, 9, 3, 4])", "", ""]
        L += [f"def test_trim_{i}():", f"    assert {i} <= snapshot(99)", "", ""]
        L += [f"def test_update_{i}():", f"    assert {i} + 1 == snapshot({i}+1)", "", ""]
        L += [f"def test_ext_a_{i}():", f"    assert outsource('payload a{i} ' * 3) == snapshot()", "", ""]
        if i == 0:
            L += [f"def test_ext_b_{i}():", f"    assert outsource(b'payload b{i}', suffix='.dat') == snapshot()", "", ""]
        if i == 1:
            L += ["def test_hasrepr():", "    assert Weird(3) == snapshot()", "", ""]
        text = "\n".join(L).rstrip("\n") + "\n"
        if variant == "unclean":
            text = text.replace("snapshot([1, 9, 3, 4])", "snapshot([1,9,3,  4])").replace("assert ", "assert  ", 1)
        files[name] = text
    files["helper_types.py"] = 'class Weird:\n    def __init__(self, n):\n        self.n = n\n\n    def __repr__(self):\n        return f"<Weird {self.n}>"\n\n    def __eq__(self, other):\n        return other.n == self.n if type(other) is Weird else NotImplemented\n'
    if variant == "cmd_cat":
        files["pyproject.toml"] = '[tool.inline-snapshot]\nformat-command="cat"\n'
    if variant == "hash64":
        # complete hash names in the source (no `*`): persisting has to find the -new file by the complete name (seeded round 6)
        files["pyproject.toml"] = "[tool.inline-snapshot]\nhash-length=64\n"
    return files


ENVIRONMENTS = [
    ("ascii-locale", {"LC_ALL": "C", "LANG": "C", "PYTHONUTF8": "0", "PYTHONCOERCECLOCALE": "0", "PYTHONIOENCODING": "utf-8"}),
    ("read-only-tempdir", {"TMPDIR": "/nonexistent-tmp-dir"}),
]


def references(text):
    out = []
    try:
        tree = ast.parse(text)
    except SyntaxError:
        return None
    for n in ast.walk(tree):
        if isinstance(n, ast.Call) and isinstance(n.func, ast.Name) and n.func.id == "external" and n.args and isinstance(n.args[0], ast.Constant):
            out.append(n.args[0].value)
    return out


def resolves(ref, stored_names):
    m = re.fullmatch(r"([0-9a-fA-F]*)\*?(\.[a-zA-Z0-9]*)", ref)
    if not m:
        return False
    h, sfx = m.groups()
    return sum(1 for n in stored_names if n.startswith(h) and n.endswith(sfx) and "-new" not in n) == 1


def check_disk(r, files, expected_new, base, out, wit, C, formatter_fault=False):
    ok = True
    stored = [k.rsplit("/", 1)[1] for k in r.after if "/external/" in k and not k.endswith(".gitignore")]
    for name in files:
        if not name.endswith(".py"):
            continue
        C["files_classified"] += 1
        cur = r.after.get(name)
        if cur is None:
            out["violations"].append({"kind": "test-file-missing-after-fault", "detail": {**base, "file": name}, "witness": wit, "finding": None})
            ok = False
            continue
        old = files[name].encode()
        new = expected_new.get(name)
        state = "old" if cur == old else "new" if cur == new else "other"
        C["file_states"][state] = C["file_states"].get(state, 0) + 1
        text = cur.decode("utf-8", "replace")
        refs = references(text)
        if refs is None:
            out["violations"].append({"kind": "test-file-syntactically-broken-after-fault", "detail": {**base, "file": name, "head": text[:400]}, "witness": wit, "finding": None})
            ok = False
            continue
        if state == "other" and not formatter_fault:
            import difflib

            d = "\n".join(difflib.unified_diff((new or b"").decode().splitlines(), text.splitlines(), "expected-new", "on-disk", lineterm="", n=0))
            out["violations"].append({"kind": "test-file-neither-old-nor-complete-new", "detail": {**base, "file": name, "diff_vs_new": d[:1200]}, "witness": wit, "finding": None})
            ok = False
        # simulated next-session start prunes -new files: every reference must still resolve
        for ref in refs:
            C["references_checked"] += 1
            if not resolves(ref, stored):
                out["violations"].append({"kind": "dangling-external-reference-after-fault", "detail": {**base, "file": name, "reference": ref, "stored": sorted(stored)}, "witness": wit, "finding": None})
                ok = False
    return ok


def run_shard(args):
    tier = args.tier
    C = {"sessions": 0, "boundaries_recorded": 0, "faults_injected": 0, "faults_not_reached": 0, "files_classified": 0, "references_checked": 0, "file_states": {}, "trace_shape_checked": 0, "formatter_faults": 0, "stack_probes": 0, "boundary_names": {}}
    out = {"evaluations": 0, "signatures": set(), "samples": [], "violations": [], "counters": C, "inconclusive": []}
    rng = random.Random(f"{args.seed}/{PROP}/{args.shard}")
    seed_parity = args.seed % 2
    variants = [("clean", ["--inline-snapshot=create,fix,trim,update"]), ("unclean", ["--inline-snapshot=create,fix"]), ("cmd_cat", ["--inline-snapshot=create,fix,trim,update"]), ("hash64", ["--inline-snapshot=create,fix,trim,update"])]
    NV = len(variants)
    if tier == "quick":
        variants = [variants[args.shard % NV]]
    jobs = []
    for vname, fargs in variants:
        files = project(vname, rng)
        # fault-free run: expected new content + boundary trace
        proj = session.Project(files, with_vp=False)
        r0 = session.run_session(proj, fargs, failpoint="record")
        proj.close()
        C["sessions"] += 1
        if r0.timeout or any(a["kind"] == "sessionfinish_exception" for a in r0.audit):
            out["inconclusive"].append(f"fault-free recording session failed ({vname}): {r0.stdout[-300:]} {r0.stderr[-300:]}")
            continue
        expected_new = {k: v for k, v in r0.after.items() if k.endswith(".py")}
        bounds = [a for a in r0.audit if a["kind"] == "boundary"]
        C["boundaries_recorded"] += len(bounds)
        names = [b["name"] for b in bounds]
        # trace shape of the fault-free run
        C["trace_shape_checked"] += 1
        first_write = next((i for i, n in enumerate(names) if n.startswith("open_w:test_")), None)
        late = [n for n in names[first_write:] if n.startswith(("DiscStorage.persist", "rename:"))] if first_write is not None else []
        if late:
            out["violations"].append({"kind": "external-persisted-after-a-test-file-was-written", "detail": {"variant": vname, "late": late[:5], "first_write_index": first_write}, "witness": {"files": files, "args": fargs}, "finding": None})
        if check_disk(r0, files, expected_new, {"variant": vname, "fault": "none"}, out, {"files": files, "args": fargs}, C):
            pass
        # choose fault points
        occ = {}
        for i, n in enumerate(names):
            occ.setdefault(n, []).append(i + 1)
        points = []
        if tier == "thorough":
            points = [(k + 1, names[k], "all") for k in range(len(names))]
        else:
            critical = ("open_w", "rename", "SourceFile.rewrite", "ChangeRecorder.fix_all", "DiscStorage.persist", "Path.rename")
            for ni, (n, ks) in enumerate(occ.items()):
                if n.startswith(critical):
                    chosen = {("first", ks[0]), ("last", ks[-1])}
                else:
                    chosen = {(("first", ks[0]), ("last", ks[-1]), ("middle", ks[len(ks) // 2]))[(ni + args.seed) % 3]}
                for cls, k in sorted(chosen):
                    points.append((k, n, cls))
        for pi, (k, n, cls) in enumerate(points):
            kinds = ("raise", "kill") if tier == "thorough" or n.startswith(("open_w", "rename", "SourceFile.rewrite", "ChangeRecorder.fix_all", "DiscStorage.persist", "Path.rename")) else (("raise", "kill")[(pi + seed_parity) % 2],)
            for kind in kinds:
                jobs.append((vname, fargs, files, expected_new, k, n, cls, kind))
        # hostile process environments (no injected fault: whatever goes wrong must not damage a file)
        for ename, eenv in ENVIRONMENTS:
            jobs.append((vname, fargs, files, expected_new, None, "environment:" + ename, "env", ("env", eenv, None)))
        # formatter faults
        if vname != "cmd_cat":
            for bk in ("raise", "garbage", "empty"):
                for idx in (None, 1, 3):
                    jobs.append((vname, fargs, files, expected_new, None, "black:" + bk + (f"@{idx}" if idx else ""), "fmt", ("black", bk, idx)))
        else:
            for cmdk, cmd in (("nonzero", "exit 3"), ("garbage", "echo 'GARBAGE((( not python'"), ("empty", "true"), ("stderr-nonzero", "echo oops >&2; exit 1"), ("truncated-nonzero", "head -n 14; exit 1"), ("whitespace-only-zero", "cat > /dev/null; echo; echo '   '"), ("stderr-looks-like-markup-nonzero", "echo 'error: cannot format [/tmp/x.py]: [bold]bad[/]' >&2; exit 1"), ("complete-nonzero", "cat; exit 2")):
                jobs.append((vname, fargs, files, expected_new, None, "format-command:" + cmdk, "fmt", ("cmd", cmd, None)))
    # in quick mode spread the jobs of the (shard % 3) variant over the shards that share it
    if tier == "quick":
        mates = [s for s in range(args.nshards) if s % NV == args.shard % NV]
        jobs = [j for i, j in enumerate(jobs) if i % len(mates) == mates.index(args.shard)]
    else:
        jobs = [j for i, j in enumerate(jobs) if i % args.nshards == args.shard]
    for vname, fargs, files, expected_new, k, n, cls, kind in jobs:
        base = {"variant": vname, "boundary": n, "k": k, "class": cls, "fault": kind if isinstance(kind, str) else list(kind[:2])}
        if not isinstance(kind, str) and kind[0] == "env":
            proj = session.Project(files, with_vp=False)
            r = session.run_session(proj, fargs, env=kind[1])
            proj.close()
            C["sessions"] += 1
            C["hostile_environment_sessions"] = C.get("hostile_environment_sessions", 0) + 1
            out["evaluations"] += 1
            out["signatures"].add(f"{n}/{vname}")
            check_disk(r, files, expected_new, base, out, {"files": files, "args": fargs, "env": kind[1]}, C, formatter_fault=False)
            continue
        fmt_fault = not isinstance(kind, str)
        f2 = dict(files)
        env = None
        fp = None
        if fmt_fault:
            if kind[0] == "black":
                env = {"VERIF_BLACK_FAULT": kind[1] + (f":{kind[2]}" if kind[2] else "")}
            else:
                f2["pyproject.toml"] = '[tool.inline-snapshot]\nformat-command="' + kind[1].replace('"', '\\"') + '"\n'
        else:
            fp = f"{k}:{kind}"
        proj = session.Project(f2, with_vp=False)
        r = session.run_session(proj, fargs, env=env, failpoint=fp)
        C["sessions"] += 1
        wit = {"files": f2, "args": fargs, "failpoint": fp, "env": env}
        if r.timeout:
            out["inconclusive"].append(f"faulted session timeout: {base}")
            proj.close()
            continue
        out["evaluations"] += 1
        injected = [a for a in r.audit if a["kind"] in ("inject", "black_fault")]
        if fmt_fault:
            C["formatter_faults"] += 1
            out["signatures"].add(f"{n}/{vname}")
        elif injected:
            C["faults_injected"] += 1
            C["boundary_names"][n.split(":")[0]] = C["boundary_names"].get(n.split(":")[0], 0) + 1
            out["signatures"].add(f"{n.split(':')[0]}/{cls if tier == 'quick' else 'idx'}/{kind}/{vname}")
        else:
            C["faults_not_reached"] += 1
        check_disk(r, files, expected_new, base, out, wit, C, formatter_fault=fmt_fault)
        if not (isinstance(kind, str) and kind == "kill"):
            un = [a for a in r.audit if a["kind"] == "unconfigure"]
            C["stack_probes"] += 1
            if not un or un[-1].get("stack_depth") != 0:
                out["violations"].append({"kind": "session-state-stack-not-popped", "detail": {**base, "unconfigure": un[-1:] or "no unconfigure event"}, "witness": wit, "finding": None})
        if fmt_fault:
            # must degrade to unformatted but correct code + a reported problem, not to an internal error
            exc = [a for a in r.audit if a["kind"] == "sessionfinish_exception"]
            if exc:
                out["violations"].append({"kind": "formatter-failure-became-internal-error", "detail": {**base, "exception": exc[0]}, "witness": wit, "finding": None})
            elif "Problems" not in r.stdout:
                out["violations"].append({"kind": "formatter-failure-not-reported-as-problem", "detail": {**base, "stdout_tail": r.stdout[-500:]}, "witness": wit, "finding": None})
            else:
                # a formatter only changes layout: whatever it did, the code on disk is the fault-free new code
                for name, want in expected_new.items():
                    if not name.endswith(".py") or name not in r.after:
                        continue
                    C["formatter_fault_ast_checks"] = C.get("formatter_fault_ast_checks", 0) + 1
                    try:
                        same = ast.dump(ast.parse(r.after[name])) == ast.dump(ast.parse(want))
                    except SyntaxError:
                        same = False
                    if not same and r.after[name] != files[name].encode():
                        import difflib

                        d = "\n".join(difflib.unified_diff(want.decode().splitlines(), r.after[name].decode("utf-8", "replace").splitlines(), "fault-free", "on-disk", lineterm="", n=0))
                        out["violations"].append({"kind": "code-after-formatter-failure-differs-from-fault-free-code", "detail": {**base, "file": name, "diff": d[:1200]}, "witness": wit, "finding": None})
                # still correct: a disabled session over the result passes the created/fixed tests
                r2 = session.run_session(proj, ["--inline-snapshot=disable", "-k", "create or fix or ext or hasrepr"])
                C["sessions"] += 1
                bad = {t: o for t, o in r2.outcomes.items() if o != "passed"}
                if bad or r2.exit != 0:
                    out["violations"].append({"kind": "code-after-formatter-failure-is-not-correct", "detail": {**base, "failing": bad, "exit": r2.exit, "stdout_tail": r2.stdout[-600:]}, "witness": wit, "finding": None})
        proj.close()
    if len(out["samples"]) < 1 and jobs:
        out["samples"].append({"variant": jobs[0][0], "boundary_trace_head": [j[5] for j in jobs[:15]], "test_one": jobs[0][2]["test_one.py"][:600]})
    out["signatures"] = sorted(out["signatures"])
    return out


def replay(data):
    w = data["witness"]
    proj = session.Project(w["files"], with_vp=False)
    r = session.run_session(proj, w["args"], env=w.get("env"), failpoint=w.get("failpoint"))
    print("exit", r.exit, "changed", r.changed)
    print([a for a in r.audit if a["kind"] in ("inject", "black_fault", "sessionfinish_exception", "unconfigure")])
    print(r.stdout[-1500:])
    proj.close()
    return 0


def main(tier, seed):
    out = common.Outcome(PROP, tier, seed, level="fault_enumeration")
    for sh in common.run_shards(PROP, tier, seed):
        out.merge(sh)
    inj, miss = out.counters.get("faults_injected", 0), out.counters.get("faults_not_reached", 0)
    if miss > 0.2 * max(1, inj + miss):
        out.inconclusive.append(f"{miss} of {inj + miss} planned faults were never reached (non-deterministic boundary trace)")
    out.extra["fault_space"] = "boundary index x {raise, kill} over the recorded session-end trace of each project variant + 9 black faults + 8 format-command faults; quick enumerates every distinct boundary name x {first, middle, last occurrence}, thorough every index"
    return common.finish(out, RULE, ASSUMPTIONS, min_evals=40, min_distinct=30, required_counters=("boundaries_recorded", "faults_injected", "files_classified", "references_checked", "trace_shape_checked", "formatter_faults", "stack_probes"))
