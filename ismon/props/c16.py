"""C16 - generated code is deterministic and independent of the formatter's presence.

The same generated modules are executed in separate interpreters, one per configuration
(PYTHONHASHSEED x formatter), each creating all snapshots with the real code; the
orchestrator compares the written snapshot arguments: byte-identical across hash seeds and
across construction orders of equal sets/dicts (same formatter), identical syntax tree and
value across formatter configurations.
"""

from __future__ import annotations

import ast
import json
import os
import random
import subprocess
import sys
import time

from .. import common
from .. import gen
from .. import inproc
from .. import program
from ..inproc import HEADER_FULL
from .c12 import no_black
from .c12 import pyproject_for

PROP = "C16"
RULE = (
    "programs of 8 empty `==`/`in`/`[k]` sites whose observed values contain sets/frozensets/dicts with str/bytes/int/tuple/frozenset/Enum/class/mixed, non-orderable and partially "
    "ordered elements (depth <= 3); each program in two construction variants (literal displays vs set([...shuffled...]) / frozenset([...]) / dict([...]) with the same dict order); "
    "every program runs in one fresh interpreter per configuration: PYTHONHASHSEED in {0,1,2,3,7,42} (thorough: 12 seeds) x formatter in {black, black missing} plus "
    "format-command black / cat on a subset; every second program starts with a test whose repr raises inside code generation. case = (site, configuration); non-trivial = the value contains a set/frozenset with >= 2 elements or a dict with >= 2 keys; "
    "distinct = (value shape signature, configuration)."
)
ASSUMPTIONS = [
    "a dict's iteration order is part of its value: construction-order variants of dicts keep the key order and vary only the route (dict([...]) vs display) and the order of sets inside",
    "class objects and Enum members have id-based hashes: their relative order inside a set varies even with a fixed hash seed, which the check exploits",
]

SEEDS_QUICK = [0, 1, 2, 3, 7, 42]
SEEDS_THOROUGH = [0, 1, 2, 3, 7, 42, 99, 123, 1000, 31337, 65535, 4294967295]


def has_set(t):
    k, p = t
    if k in ("set", "frozenset") and len(p) >= 2:
        return True
    if k == "dict" and len(p) >= 2:
        return True
    if k in ("list", "tuple", "set", "frozenset"):
        return any(has_set(c) for c in p)
    if k == "dict":
        return any(has_set(a) or has_set(b) for a, b in p)
    if k == "dd":
        return has_set(p[1])
    if k == "call":
        return any(has_set(v) for _, v in p[1])
    return False


def gen_setty(rng, depth=3):
    for _ in range(50):
        top = rng.choice(["set", "frozenset", "dict", "list", "call", "tuple"])
        t = gen.gen_value(rng, depth, allow=None, size=4)
        if top in ("set", "frozenset"):
            elems = gen._dedupe([gen.gen_value(rng, 2, True, size=3) for _ in range(rng.randint(2, 6))])
            t = (top, tuple(elems))
        if has_set(t) and "outsource(" not in gen.expr(t):
            return t
    return ("set", (("int", 1), ("str", "a")))


QUOTE_PIECES = ["'", '"', "\\", " ", "\n", "a", "b c", "\u00e9", '"""', "'''", "\t", "{", "#", "x ,y", "(1 ,2 )", " ]", "[ 3", " }", "\n", "k : v"]


def gen_layout_sensitive(rng):
    """values whose literal a formatter likes to touch (quote choice, docstring handling, number spelling):
    the formatter may change the spelling but never the value"""
    def text():
        return "".join(rng.choice(QUOTE_PIECES) for _ in range(rng.randint(1, 6)))

    r = rng.random()
    if r < 0.6:
        return ("str", text())
    if r < 0.7:
        return ("bytes", text().encode("utf-8"))
    if r < 0.85:
        return ("list", tuple(("str", text()) for _ in range(rng.randint(1, 3))))
    if r < 0.93:
        return ("float", rng.choice([1e100, 1e-7, -0.0, 1.5e300, 123456789.125]))
    return ("dict", ((("str", text()), ("str", text())),))


def variant_expr(t, rng):
    """equal value, different construction route / insertion order of sets"""
    k, p = t
    sub = lambda c: variant_expr(c, rng)  # noqa
    if k in ("set", "frozenset"):
        items = [sub(c) for c in p]
        rng.shuffle(items)
        return f"{k}([" + ", ".join(items) + "])"
    if k == "dict":
        return "dict([" + ", ".join(f"({sub(a)}, {sub(b)})" for a, b in p) + "])"
    if k == "list":
        return "[" + ", ".join(map(sub, p)) + "]"
    if k == "tuple":
        return "(" + ", ".join(map(sub, p)) + ("," if len(p) == 1 else "") + ")"
    if k == "dd":
        return f"defaultdict({p[0]}, {sub(p[1])})"
    if k == "call":
        return p[0] + "(" + ", ".join(f"{f}={sub(v)}" for f, v in p[1]) + ")"
    return gen.expr(t)


def make_programs(seed, n):
    progs = []
    for i in range(n):
        rng = random.Random(f"{seed}/{PROP}/prog/{i}")
        trees = [gen_setty(rng) for _ in range(8)] + [gen_layout_sensitive(rng) for _ in range(3)]
        ops = [rng.choice(["eq", "eq", "eq", "in", "getitem"]) for _ in trees]
        variants = {}
        for vname in ("display", "constructed"):
            vr = random.Random(f"{seed}/{PROP}/variant/{i}/{vname}")
            sites = []
            for j, (t, op) in enumerate(zip(trees, ops)):
                e = gen.expr(t) if vname == "display" else variant_expr(t, vr)
                if op == "getitem":
                    sites.append({"id": j, "op": "getitem", "child": "eq", "old": None, "obs": [("'k'", e)], "place": "loop"})
                else:
                    sites.append({"id": j, "op": op, "old": None, "obs": [e], "place": "loop"})
            src, order = program.build(sites, style="rec", tests=2)
            if i % 2 == 0:
                # "poison" test that runs first: generating code for the compared object raises inside the
                # library (its repr raises); whatever state that leaves behind must not change later output
                poison = "class BrokenRepr:\n    def __repr__(self):\n        raise RuntimeError('repr is broken')\n\n    def __eq__(self, other):\n        return type(other) is BrokenRepr\n\n    def __deepcopy__(self, memo):\n        return self\n\n\ndef test_00_poison():\n    rec(-1, lambda: BrokenRepr() == snapshot(5))\n    rec(-2, lambda: [BrokenRepr()] == snapshot([1, 2]))\n\n\n"
                src = src.replace("def test_0():", poison + "def test_0():", 1)
            variants[vname] = src
        progs.append({"id": i, "variants": variants, "sigs": [gen.kind_sig(t) for t in trees]})
    return progs


# ---------------------------------------------------------------------------------------
# worker: one configuration, all programs


def run_shard(args):
    cfg = json.loads(os.environ["C16_CONFIG"])
    n = cfg["nprograms"]
    progs = make_programs(args.seed, n)
    fmt = cfg["formatter"]
    results = {}
    counters = {"programs_run": 0, "sites_created": 0, "reexec_events": 0, "crashed": 0}
    violations = []
    for pr in progs:
        if pr["id"] % cfg["stride"] != cfg["offset"]:
            continue
        for vname, src in pr["variants"].items():
            files = {"test_a.py": src}
            pp = pyproject_for(fmt)
            if pp:
                files["pyproject.toml"] = pp
            if fmt == "noblack":
                with no_black():
                    res = inproc.run(files, ("create",))
            else:
                res = inproc.run(files, ("create",))
            key = f"{pr['id']}/{vname}"
            if res.exec_exc or res.crashed():
                counters["crashed"] += 1
                results[key] = {"error": str(res.exec_exc or res.collect_exc or res.apply_exc)}
                continue
            counters["programs_run"] += 1
            new = res.files_after["test_a.py"].decode()
            try:
                args_new, _ = program.outer_snapshot_args(new)
            except SyntaxError as e:
                violations.append({"kind": "unparsable", "detail": {"config": cfg, "program": key, "error": str(e), "new": new[:1500]}, "witness": {"files": files, "config": cfg}, "finding": None})
                continue
            counters["sites_created"] += sum(1 for a in args_new if a is not None)
            # each configuration must still produce a correct value (plain re-execution)
            logs, test_exc, exec_exc, _ = inproc.plain_run({"test_a.py": new})
            ev = logs.get("test_a.py", [])
            counters["reexec_events"] += len(ev)
            bad = [e for e in ev if not (e[1] == "ok" and e[3] is True) and e[0] >= 0]
            if exec_exc or bad:
                violations.append({"kind": "value-wrong-in-this-configuration", "detail": {"config": cfg, "program": key, "events": bad[:4], "exec": exec_exc}, "witness": {"files": files, "config": cfg}, "finding": None})
            results[key] = {"args": args_new, "asts": [ast.dump(ast.parse(a, mode="eval")) if a is not None else None for a in args_new]}
    # a case = one site of one program in one configuration
    return {"evaluations": counters["sites_created"], "signatures": [], "samples": [], "violations": violations, "counters": counters, "inconclusive": [], "extra": {}, "results": results, "config": cfg}


# ---------------------------------------------------------------------------------------
# orchestrator


def main(tier, seed):
    common.ensure_deps()
    out = common.Outcome(PROP, tier, seed)
    nprog = {"quick": 48, "thorough": 600}[tier]
    seeds = SEEDS_QUICK if tier == "quick" else SEEDS_THOROUGH
    configs = []
    for hs in seeds:
        for fmt in ("black", "noblack"):
            configs.append({"hashseed": hs, "formatter": fmt, "nprograms": nprog, "stride": 1, "offset": 0})
    # format-command configurations: a subprocess per file -> subset of programs, two seeds
    for hs in seeds[:2]:
        for fmt in ("cmd_black", "cmd_cat"):
            configs.append({"hashseed": hs, "formatter": fmt, "nprograms": nprog, "stride": 6 if tier == "quick" else 10, "offset": 0})
    root = common.tmp_root()
    outdir = root / "c16-out"
    outdir.mkdir(exist_ok=True)
    # split every full configuration in parts so that all cores are used
    jobs = []
    parts = max(1, common.NCPU // 4)
    for ci, cfg in enumerate(configs):
        if cfg["stride"] == 1:
            for part in range(parts):
                jobs.append((ci, dict(cfg, stride=parts, offset=part)))
        else:
            jobs.append((ci, cfg))
    procs = []
    running = []
    results = {}

    def launch(j, ci, cfg):
        o = outdir / f"job{j}.json"
        env = common.child_env({"C16_CONFIG": json.dumps(cfg)}, hashseed=cfg["hashseed"])
        log = open(outdir / f"job{j}.log", "wb")
        p = subprocess.Popen([common.PY, "-m", "ismon.worker", PROP, "--shard", str(j), "--nshards", str(len(jobs)), "--seed", str(seed), "--tier", tier, "--out", str(o)], cwd=str(common.VERIF), env=env, stdout=log, stderr=subprocess.STDOUT)
        return (j, ci, cfg, p, o, log)

    pending = list(enumerate(jobs))
    deadline = time.time() + (900 if tier == "quick" else 7200)
    done = []
    while pending or running:
        while pending and len(running) < common.NCPU:
            j, (ci, cfg) = pending.pop(0)
            running.append(launch(j, ci, cfg))
        still = []
        for r in running:
            if r[3].poll() is None:
                if time.time() > deadline:
                    r[3].kill()
                    out.inconclusive.append(f"job {r[0]} watchdog timeout")
                else:
                    still.append(r)
            else:
                r[5].close()
                done.append(r)
        running = still
        time.sleep(0.05)
    per_config = {}
    for j, ci, cfg, p, o, log in done:
        if not o.exists():
            out.inconclusive.append(f"job {j} produced no output (exit {p.returncode}): {(outdir / f'job{j}.log').read_text(errors='replace')[-500:]}")
            continue
        sh = json.loads(o.read_text())
        out.merge(sh)
        per_config.setdefault(ci, {}).update(sh.get("results", {}))
    progs = make_programs(seed, nprog)
    sig_of = {str(p["id"]): p["sigs"] for p in progs}
    C = out.counters
    C["configurations"] = len(configs)
    C["pairs_compared_bytes"] = 0
    C["pairs_compared_ast"] = 0
    C["construction_variant_pairs"] = 0

    def cfgname(ci):
        c = configs[ci]
        return f"hs{c['hashseed']}/{c['formatter']}"

    # (1) byte equality across hash seeds and construction variants, per formatter
    by_fmt = {}
    for ci, cfg in enumerate(configs):
        by_fmt.setdefault(cfg["formatter"], []).append(ci)
    for fmt, cis in by_fmt.items():
        ref_ci = cis[0]
        for key, ref in per_config.get(ref_ci, {}).items():
            pid = key.split("/")[0]
            if "args" not in ref:
                continue
            for ci in cis:
                other = per_config.get(ci, {}).get(key)
                if other is None or "args" not in other:
                    continue
                if ci != ref_ci:
                    C["pairs_compared_bytes"] += 1
                    for s in sig_of.get(pid, []):
                        out.signatures.add(f"{s}/{cfgname(ci)}")
                    if other["args"] != ref["args"]:
                        diff = [(a, b) for a, b in zip(ref["args"], other["args"]) if a != b][:2]
                        out.violations.append({"kind": "text-depends-on-hash-seed", "detail": {"program": key, "config_a": cfgname(ref_ci), "config_b": cfgname(ci), "differing_args": diff}, "witness": {"program": progs[int(pid)]["variants"][key.split('/')[1]], "configs": [configs[ref_ci], configs[ci]]}, "finding": None})
                # construction variants inside one configuration
                if key.endswith("/display"):
                    twin = per_config.get(ci, {}).get(pid + "/constructed")
                    mine = per_config.get(ci, {}).get(key)
                    if twin and mine and "args" in twin and "args" in mine:
                        C["construction_variant_pairs"] += 1
                        if twin["args"] != mine["args"]:
                            diff = [(a, b) for a, b in zip(mine["args"], twin["args"]) if a != b][:2]
                            out.violations.append({"kind": "text-depends-on-construction-order", "detail": {"program": pid, "config": cfgname(ci), "differing_args": diff}, "witness": {"display": progs[int(pid)]["variants"]["display"], "constructed": progs[int(pid)]["variants"]["constructed"], "config": configs[ci]}, "finding": None})
    # (2) same syntax tree across formatter configurations (same hash seed 0)
    base_ci = by_fmt["black"][0]
    for fmt, cis in by_fmt.items():
        if fmt == "black":
            continue
        ci = cis[0]
        for key, other in per_config.get(ci, {}).items():
            ref = per_config.get(base_ci, {}).get(key)
            if not ref or "asts" not in ref or "asts" not in other:
                continue
            C["pairs_compared_ast"] += 1
            if ref["asts"] != other["asts"]:
                diff = [(a, b) for a, b, x, y in zip(ref["args"], other["args"], ref["asts"], other["asts"]) if x != y][:2]
                out.violations.append({"kind": "syntax-tree-depends-on-formatter", "detail": {"program": key, "config_a": cfgname(base_ci), "config_b": cfgname(ci), "differing_args": diff}, "witness": {"program": progs[int(key.split('/')[0])]["variants"][key.split('/')[1]], "configs": [configs[base_ci], configs[ci]]}, "finding": None})
    # (4) real sessions: whole rewritten files (incl. the import lines the plugin adds) byte-identical across hash seeds
    from .. import session

    rng = random.Random(f"{seed}/{PROP}/real")
    files = {
        "test_a.py": "from inline_snapshot import snapshot, outsource\nfrom vp import *\n\n\ndef test_a():\n"
        f"    assert [Weird({rng.randint(0, 9)}), outsource('payload {rng.randint(0, 99)}'), {{'b', 'a', 'c', 1}}] == snapshot()\n"
        f"    assert {{Color.RED: {{1, 'x'}}, 'k': frozenset([(1, 2), 'y'])}} == snapshot()\n",
        "test_b.py": "from inline_snapshot import snapshot, outsource\nfrom vp import *\n\n\ndef test_b():\n"
        "    assert outsource(b'\\x00bytes') == snapshot()\n    assert Weird(3) == snapshot()\n",
    }
    texts = {}
    for hs in seeds:
        proj = session.Project(files)
        try:
            r = session.run_session(proj, ["--inline-snapshot=create"], hashseed=str(hs))
        finally:
            proj.close()
        C["real_sessions"] = C.get("real_sessions", 0) + 1
        if any(a["kind"] == "sessionfinish_exception" for a in r.audit):
            out.violations.append({"kind": "session-end-raised", "detail": {"hashseed": hs, "events": [a for a in r.audit if a["kind"] == "sessionfinish_exception"]}, "witness": {"files": files, "hashseed": hs}, "finding": None})
            continue
        texts[hs] = {k: r.after.get(k, b"").decode("utf-8", "replace") for k in files}
    if texts:
        ref_hs = sorted(texts)[0]
        for hs, t in texts.items():
            out.evaluations += len(files)
            C["real_files_compared"] = C.get("real_files_compared", 0) + len(files)
            for k in files:
                if t[k] == files[k]:
                    out.inconclusive.append(f"real session (hash seed {hs}) did not rewrite {k}")
                if t[k] != texts[ref_hs][k]:
                    import difflib

                    d = "\n".join(difflib.unified_diff(texts[ref_hs][k].splitlines(), t[k].splitlines(), f"PYTHONHASHSEED={ref_hs}", f"PYTHONHASHSEED={hs}", lineterm="", n=0))
                    out.violations.append({"kind": "rewritten-file-depends-on-hash-seed(real session)", "detail": {"file": k, "diff": d[:1200]}, "witness": {"files": files, "hashseeds": [ref_hs, hs]}, "finding": None})
        out.signatures.add("real-session/files-across-hash-seeds")
    out.samples.append({"program_display": progs[0]["variants"]["display"][:1200], "program_constructed": progs[0]["variants"]["constructed"][:700], "args_hs0_black": per_config.get(base_ci, {}).get("0/display", {}).get("args", [])[:3]})
    crashed = C.get("crashed", 0)
    if crashed > 0.05 * max(1, C.get("programs_run", 0)):
        out.inconclusive.append(f"{crashed} program runs crashed")
    return common.finish(out, RULE, ASSUMPTIONS, min_evals=100, min_distinct=50, required_counters=("pairs_compared_bytes", "pairs_compared_ast", "construction_variant_pairs", "reexec_events"))
