"""C17 - what is recorded is the value at comparison time.

Test bodies compare a mutable object and mutate it afterwards / between repeated
comparisons / inside a nested element; the body itself logs copy.deepcopy(value)
immediately before every comparison (the aliasing-free model).  After create (or fix from
a wrong previous value) the written argument must equal the model aggregate of those
copies.  Values whose deep copy is unequal must be rejected with UsageError.
"""

from __future__ import annotations

import random

from .. import common
from .. import inproc
from .. import models
from .. import program
from ..inproc import HEADER_FULL

PROP = "C17"
RULE = (
    "files of 4-10 test functions; each builds a mutable value (list/dict/set/dataclass/attrs/nested, ints inside so that lists are totally ordered), logs a deep copy, compares it "
    "through one of ==, reflected ==, <=, >=, in, [k] 1-3 times and mutates it at one of {after the comparison, between comparisons, inside a nested element, through an alias} "
    "with one of {append, pop, setitem, clear, del key, set.add, attribute assignment, nested append}; empty snapshots (create) or wrong previous values (fix+trim). "
    "case = (test, comparison); non-trivial = a mutation happened after a comparison of that site; distinct = (op, value kind, mutation point, mutation kind, start state). "
    "Plus classes whose deepcopy is unequal / __eq__ is always False (UsageError expected, nothing written) and classes whose deepcopy raises (mutated after each comparison: the later state must never be written)."
)
ASSUMPTIONS = [
    "for == the first comparison is the recorded one; repeated == comparisons are only generated with values that are equal at each comparison time (a site compared with two unequal values contradicts itself)",
]

VALUES = {
    "list": ("[1, 2, 3]", ["v.append(9)", "v.pop()", "v[0] = 7", "v.clear()", "v.insert(0, 5)"]),
    "nested": ("[[1], [2, 3]]", ["v[0].append(9)", "v[1].clear()", "v.append([0])", "v[1][0] = 8"]),
    "dict": ("{'a': 1, 'b': [2]}", ["v['c'] = 3", "del v['a']", "v['b'].append(4)", "v['a'] = 0"]),
    "set": ("{1, 2}", ["v.add(9)", "v.discard(1)", "v.clear()"]),
    "dc": ("DC(a=[1], b=2)", ["v.a.append(5)", "v.b = 99", "v.c.append(1)"]),
    "at": ("AT(a={'k': 1}, b=[1])", ["v.a['k'] = 2", "v.b.append(3)", "v.b = None"]),
    "listofdict": ("[{'x': 1}, {'y': [2]}]", ["v[0]['x'] = 5", "v[1]['y'].append(3)", "v.pop(0)"]),
    "tuple_with_list": ("([1, 2], 'fixed')", ["v[0].append(3)", "v[0].clear()"]),
    # hashable containers holding hashable-but-mutable user objects (a "tuples are immutable" shortcut must not skip the copy)
    "tuple_with_box": ("(Box('a', [1, 2]), 'x')", ["v[0].items.append(3)", "v[0].name = 'z'", "v[0].items.clear()"]),
    "frozenset_with_box": ("frozenset({Box('b', [1])})", ["list(v)[0].items.append(9)", "list(v)[0].name = 'q'"]),
    "namedtuple_with_box": ("NT(a=Box('c'), b=[1])", ["v.a.items.append(4)", "v.b.append(2)"]),
    "nested_tuple_box": ("((Box('d', [0]),), 1)", ["v[0][0].items.append(1)"]),
}
ORDERED = {"list": ("[1, 2, 3]", ["v.append(9)", "v.pop()", "v[0] = 7", "v.clear()", "v.insert(0, 5)", "v[0] = -4"])}


def make_test(rng, k):
    op = rng.choice(["eq", "eq", "req", "le", "ge", "in", "getitem"])
    kind = rng.choice(list(ORDERED if op in ("le", "ge") else VALUES))
    init, muts = (ORDERED if op in ("le", "ge") else VALUES)[kind]
    point = rng.choice(["after", "between", "alias", "after_nested_fn"])
    ncmp = 1 if op in ("eq", "req") and point != "between" else rng.randint(1, 3)
    old = None
    if rng.random() < 0.4:
        old = {"eq": "'wrong'", "req": "'wrong'", "le": "[0]", "ge": "[99, 99, 99, 99, 99]", "in": "['unused']", "getitem": "{'k': 'wrong', 'unused': 1}"}[op]
    snap = "snapshot()" if old is None else f"snapshot({old})"
    cmp = {"eq": f"v == {snap}", "req": f"{snap} == v", "le": f"v <= {snap}", "ge": f"v >= {snap}", "in": f"v in {snap}", "getitem": f"{snap}['k'] == v"}[op]
    L = [f"def test_{k}():", f"    v = {init}", "    w = v"]
    mut_used = []
    if op in ("eq", "req", "getitem") and ncmp > 1:
        # repeated == : the compared object is mutated afterwards, the next comparison uses a fresh
        # equal object, so the values are equal at each comparison time
        m = rng.choice(muts)
        mut_used.append(m)
        L = [f"def _mutate_{k}(v):", f"    {m}", "", f"def test_{k}():", f"    v = {init}", "    for _ in range(%d):" % ncmp, f"        note({k}, 'at', v)", f"        rec({k}, lambda: {cmp})", "        u = v", "        v = copy.deepcopy(v)", f"        _mutate_{k}(u)"]
    else:
        L += ["    for i in range(%d):" % ncmp, f"        note({k}, 'at', v)", f"        rec({k}, lambda: {cmp})"]
        m = rng.choice(muts)
        mut_used.append(m)
        target = "w" if point == "alias" else "v"
        mline = m.replace("v.", target + ".").replace("v[", target + "[").replace("del v", "del " + target)
        if point == "between":
            L += [f"        {mline}"]
        elif point == "after_nested_fn":
            L = [f"def _mutate_{k}(v):", f"    {m}", ""] + L + [f"    _mutate_{k}(v)"]
        else:
            L += [f"    {mline}"]
            if rng.random() < 0.5:
                m2 = rng.choice(muts)
                mut_used.append(m2)
                L += [f"    {m2}"]
    return "\n".join(L) + "\n", {"op": op, "kind": kind, "point": point, "ncmp": ncmp, "old": old, "muts": mut_used}


BAD_CLASSES = '''
class BadCopy:
    def __init__(self, n): self.n = n
    def __deepcopy__(self, memo): return BadCopy(self.n + 1)
    def __eq__(self, other): return isinstance(other, BadCopy) and other.n == self.n
    def __repr__(self): return f"BadCopy({self.n})"

class NeverEqual:
    def __eq__(self, other): return False
    def __repr__(self): return "NeverEqual()"

class HashableBadCopy:
    def __init__(self, n): self.n = n
    def __deepcopy__(self, memo): return HashableBadCopy(self.n + 1)
    def __eq__(self, other): return isinstance(other, HashableBadCopy) and other.n == self.n
    def __hash__(self): return 1
    def __repr__(self): return f"HashableBadCopy({self.n})"

class LosesState:
    def __init__(self): self.items = [1]
    def __deepcopy__(self, memo): return LosesState.__new__(LosesState)
    def __eq__(self, other): return isinstance(other, LosesState) and getattr(other, "items", None) == getattr(self, "items", None)
    def __repr__(self): return "LosesState()"
'''


def run_shard(args):
    tier = args.tier
    ncases = {"quick": 40, "thorough": 1500}[tier]
    C = {"files": 0, "tests": 0, "comparisons_logged": 0, "mutations_after_comparison": 0, "crashed": 0, "bad_copy_cases": 0, "crash_kinds": {}}
    out = {"evaluations": 0, "signatures": set(), "samples": [], "violations": [], "counters": C, "inconclusive": []}
    header = HEADER_FULL + "import copy\n"
    for c in range(ncases):
        rng = random.Random(f"{args.seed}/{PROP}/{args.shard}/{c}")
        tests, metas = [], []
        for k in range(rng.randint(4, 10)):
            t, meta = make_test(rng, k)
            tests.append(t)
            metas.append(meta)
        src = header + "\n" + "\n".join(tests)
        F = ("create", "fix", "trim")
        C["files"] += 1
        res = inproc.run({"test_a.py": src}, F)
        wit = {"files": {"test_a.py": src}, "flags": list(F)}
        if res.exec_exc:
            out["inconclusive"].append(f"module failed: {res.exec_exc}")
            continue
        if res.crashed():
            C["crashed"] += 1
            kk = str((res.collect_exc or res.apply_exc)[::2])
            C["crash_kinds"][kk] = C["crash_kinds"].get(kk, 0) + 1
            continue
        log = res.logs["test_a.py"]
        new_src = res.files_after["test_a.py"].decode()
        try:
            new_args, _ = program.outer_snapshot_args(new_src)
        except SyntaxError as e:
            out["violations"].append({"kind": "unparsable", "detail": {"error": str(e), "new": new_src[:2000]}, "witness": wit, "finding": None})
            continue
        if len(new_args) != len(metas):
            out["violations"].append({"kind": "site-count-changed", "detail": {}, "witness": wit, "finding": None})
            continue
        ns = inproc.Namespace(header)
        try:
            for k, (meta, arg) in enumerate(zip(metas, new_args)):
                C["tests"] += 1
                copies = [e[2] for e in log if e[0] == k and e[1] == "at"]
                raised = [e for e in log if e[0] == k and e[1] == "exc"]
                C["comparisons_logged"] += len(copies)
                if raised:
                    out["violations"].append({"kind": "comparison-raised", "detail": {"test": k, "meta": meta, "events": raised[:3]}, "witness": wit, "finding": None})
                    continue
                # re-create the logged copies inside the evaluation namespace (class identities)
                obs = [ns.eval(repr_for(x)) for x in copies]
                p = models.MISSING if meta["old"] is None else ns.eval(meta["old"])
                op = meta["op"]
                if op == "getitem":
                    m = models.SiteModel("getitem", p, [("k", x) for x in obs], "eq")
                else:
                    m = models.SiteModel(op, p, obs)
                want = m.after(F)
                got = models.MISSING if arg is None else ns.eval(arg)
                out["evaluations"] += len(copies)
                C["mutations_after_comparison"] += len(meta["muts"])
                out["signatures"].add(f"{op}/{meta['kind']}/{meta['point']}/{'|'.join(sorted(set(meta['muts'])))}/{'old' if meta['old'] else 'new'}")
                if not models.same_value(m.op, want, got):
                    out["violations"].append({"kind": "recorded-value-is-not-the-value-at-comparison-time", "detail": {"test": k, "meta": meta, "copies_at_comparison": [repr(x) for x in copies], "expected": repr(want)[:300], "got": repr(got)[:300] if got is not models.MISSING else "<empty>", "arg": arg}, "witness": wit, "finding": None})
        finally:
            ns.close()
        if len(out["samples"]) < 2:
            out["samples"].append({"before": src[:1200], "after": new_src[:1200]})

    # ---- values whose deep copy is not equal
    for name, ctor in (("BadCopy", "BadCopy(1)"), ("NeverEqual", "NeverEqual()"), ("LosesState", "LosesState()"), ("HashableBadCopy-in-tuple", "(HashableBadCopy(1), 'x')"), ("HashableBadCopy-in-frozenset", "frozenset({HashableBadCopy(2)})")):
        for op, cmp in (("eq", "snapshot() == v"), ("in", "v in snapshot()"), ("getitem", "snapshot()['k'] == v"), ("eq-nested", "snapshot() == [1, v]"), ("fix", "snapshot(5) == v"), ("fix-in-list", "snapshot([5]) == [v]"), ("getitem-existing", "snapshot({'k': 1})['k'] == v"), ("in-existing", "v in snapshot([1])")):
            for F in (("create", "fix"), ()):
                src = header + BAD_CLASSES + f"\ndef test_a():\n    v = {ctor}\n    rec(0, lambda: {cmp})\n"
                res = inproc.run({"test_a.py": src}, F)
                ev = res.logs.get("test_a.py", [])
                out["evaluations"] += 1
                C["bad_copy_cases"] += 1
                out["signatures"].add(f"unequal-copy/{name}/{op}/{'+'.join(F) or '-'}")
                wit = {"files": {"test_a.py": src}, "flags": list(F)}
                if not (len(ev) == 1 and ev[0][1] == "exc" and ev[0][2] == "UsageError"):
                    out["violations"].append({"kind": "unequal-deepcopy-not-rejected-with-UsageError", "detail": {"class": name, "op": op, "F": list(F), "events": ev}, "witness": wit, "finding": None})
                if res.crashed():
                    out["violations"].append({"kind": "unequal-deepcopy-crashes-session-end", "detail": {"class": name, "op": op, "F": list(F), "collect": res.collect_exc, "apply": res.apply_exc}, "witness": wit, "finding": None})
                elif res.files_after["test_a.py"] != res.files_before["test_a.py"] and not (op == "getitem" and "snapshot({})['k']" in res.files_after["test_a.py"].decode()):
                    # (an empty sub-snapshot dict `{}` may be created: the rejected value itself is not recorded)
                    out["violations"].append({"kind": "unequal-deepcopy-value-written", "detail": {"class": name, "op": op, "F": list(F), "new": res.files_after["test_a.py"].decode()[-300:]}, "witness": wit, "finding": None})
    # ---- values that cannot be deep-copied at all (deepcopy raises): the comparison may raise and record nothing, but a
    # fallback to the live object would let a later mutation leak into the file (seeded round 6)
    UNCOPYABLE = (
        "\nclass Uncopyable:\n    def __init__(self, items): self.items = items\n"
        "    def __deepcopy__(self, memo): raise %s\n"
        "    def __eq__(self, other): return isinstance(other, Uncopyable) and other.items == self.items\n"
        "    def __le__(self, other): return isinstance(other, Uncopyable) and self.items <= other.items\n"
        "    def __ge__(self, other): return isinstance(other, Uncopyable) and self.items >= other.items\n"
        "    def __hash__(self): return 7\n"
        "    def __repr__(self): return f'Uncopyable({self.items!r})'\n"
    )
    ucase = 0
    for exc in ("TypeError(\"cannot pickle '_thread.lock' object\")", "copy.Error('no')", "RecursionError('deep')"):
        for ctor in ("Uncopyable([1])", "[0, Uncopyable([1])]", "(Uncopyable([1]), 'x')", "{'k': Uncopyable([1])}"):
            for op, cmp in (("eq", "snapshot() == v"), ("req", "v == snapshot()"), ("in", "v in snapshot()"), ("getitem", "snapshot()['k'] == v"), ("le", "v <= snapshot()"), ("fix", "snapshot(5) == v"), ("in-existing", "v in snapshot([1])")):
                if op == "le" and ctor != "Uncopyable([1])":
                    continue
                for F in (("create", "fix"), ("create", "fix", "trim", "update")):
                    ucase += 1
                    if ucase % args.nshards != args.shard:
                        continue
                    src = header + UNCOPYABLE % exc + f"\ndef test_a():\n    v = {ctor}\n    u = v if isinstance(v, Uncopyable) else (v['k'] if isinstance(v, dict) else [x for x in v if isinstance(x, Uncopyable)][0])\n    rec(0, lambda: {cmp})\n    u.items.append('late')\n    rec(0, lambda: {cmp})\n    u.items.append('later')\n"
                    res = inproc.run({"test_a.py": src}, F)
                    out["evaluations"] += 1
                    C["uncopyable_cases"] = C.get("uncopyable_cases", 0) + 1
                    out["signatures"].add(f"uncopyable/{exc.split('(')[0]}/{ctor}/{op}/{'+'.join(F)}")
                    wit = {"files": {"test_a.py": src}, "flags": list(F)}
                    if res.exec_exc:
                        out["inconclusive"].append(f"module failed: {res.exec_exc}")
                        continue
                    if res.crashed():
                        continue  # C18's subject; nothing was written
                    new_src = res.files_after["test_a.py"].decode()
                    try:
                        new_args, _ = program.outer_snapshot_args(new_src)
                    except SyntaxError as e:
                        out["violations"].append({"kind": "unparsable", "detail": {"error": str(e), "new": new_src[-600:]}, "witness": wit, "finding": None})
                        continue
                    if any(a and "late" in a for a in new_args):
                        out["violations"].append({"kind": "recorded-value-is-not-the-value-at-comparison-time", "detail": {"case": "value that cannot be deep-copied", "ctor": ctor, "op": op, "F": list(F), "written": new_args, "events": res.logs.get("test_a.py", [])[:4]}, "witness": wit, "finding": None})
    # ---- real sessions: snapshots created during collection (module level, parametrize arguments) and compared inside
    # ordinary, parametrised and xfail-marked tests (which run in a switched-off local state); the object is mutated afterwards
    from .. import session

    REAL = [["--inline-snapshot=create"], ["--inline-snapshot=create,fix,trim,update"], ["--inline-snapshot=review"]]
    nreal = {"quick": 1 if args.shard < len(REAL) else 0, "thorough": 3}[tier]
    for c in range(nreal):
        rng = random.Random(f"{args.seed}/{PROP}/session/{args.shard}/{c}")
        fargs = REAL[(args.shard + c) % len(REAL)]
        a, b, n1, n2 = rng.sample(range(10, 99), 4)
        src = (
            "import pytest\nfrom inline_snapshot import snapshot\n" + BAD_CLASSES + "\n"
            "S_PLAIN = snapshot()\nS_XFAIL = snapshot()\nS_BAD = snapshot()\nS_LE = snapshot()\n"
            f"PARAMS = [({n1}, snapshot()), ({n2}, snapshot())]\n\n\n"
            f"def test_plain():\n    v = [{a}, [{b}]]\n    assert v == S_PLAIN\n    v[1].append('late')\n    v.append('late')\n\n\n"
            f"@pytest.mark.xfail\ndef test_xfail():\n    v = {{'k': [{a}]}}\n    assert v == S_XFAIL\n    v['k'].append('late')\n    assert False\n\n\n"
            "@pytest.mark.xfail\ndef test_xfail_bad_copy():\n    assert BadCopy(1) == S_BAD\n\n\n"
            f"@pytest.mark.xfail\ndef test_xfail_bound():\n    v = [{a}, [{b}]]\n    assert v <= S_LE\n    v[1].append(0)\n    w = [{a}, [{b}, 1]]\n    assert w <= S_LE\n    w[1].append('late')\n    raise ValueError('expected failure')\n\n\n"
            "@pytest.mark.parametrize('n,s', PARAMS)\ndef test_param(n, s):\n    v = (n, [n])\n    assert v == s\n    v[1].append('late')\n"
        )
        proj = session.Project({"test_a.py": src}, with_vp=False)
        try:
            r = session.run_session(proj, fargs, env={"FORCE_COLOR": "true"} if "review" in fargs[0] else None, stdin=b"y\ny\ny\ny\n" if "review" in fargs[0] else None)
        finally:
            proj.close()
        C["real_sessions"] = C.get("real_sessions", 0) + 1
        wit = {"files": {"test_a.py": src}, "args": fargs}
        if any(e["kind"] == "sessionfinish_exception" for e in r.audit):
            out["violations"].append({"kind": "session-end-raised", "detail": {"events": [e for e in r.audit if e["kind"] == "sessionfinish_exception"]}, "witness": wit, "finding": None})
            continue
        new = r.after.get("test_a.py", b"").decode()
        try:
            new_args, _ = program.outer_snapshot_args(new)
        except SyntaxError as e:
            out["violations"].append({"kind": "unparsable", "detail": {"error": str(e), "new": new[:1500]}, "witness": wit, "finding": None})
            continue
        # value at comparison time, or nothing at all (None) where the test is xfail-marked / the copy is rejected
        want = [("module-level/plain-test", [[a, [b]]]), ("module-level/xfail-test", [None, {"k": [a]}]), ("module-level/xfail-test/unequal-copy", [None]), ("module-level/xfail-test/bound", [None, [a, [b, 1]]]), ("parametrize-argument-1", [(n1, [n1])]), ("parametrize-argument-2", [(n2, [n2])])]
        if len(new_args) != len(want):
            out["violations"].append({"kind": "site-count-changed", "detail": {"new": new[:1500]}, "witness": wit, "finding": None})
            continue
        for (label, allowed), na in zip(want, new_args):
            out["evaluations"] += 1
            C["real_collection_time_sites"] = C.get("real_collection_time_sites", 0) + 1
            out["signatures"].add(f"real-session/{label}/{fargs[0]}")
            got = None if na is None else eval(na, {})
            if not any(got == x and type(got) is type(x) for x in allowed):
                out["violations"].append({"kind": "written-value-is-not-the-value-at-comparison-time(real session)", "detail": {"site": label, "args": fargs, "written": na, "allowed": [repr(x) for x in allowed], "new_head": new[-900:]}, "witness": wit, "finding": None})
    out["signatures"] = sorted(out["signatures"])
    return out


def repr_for(x):
    """expression that rebuilds a logged deep copy (vp classes have code-like reprs)"""
    return repr(x)


def replay(data):
    res = inproc.run(data["witness"]["files"], data["witness"]["flags"])
    print(res.logs, res.collect_exc, res.apply_exc)
    print(res.files_after["test_a.py"].decode())
    return 0


def main(tier, seed):
    out = common.Outcome(PROP, tier, seed)
    for sh in common.run_shards(PROP, tier, seed):
        out.merge(sh)
    files = out.counters.get("files", 0)
    if files and out.counters.get("crashed", 0) > 0.05 * files:
        out.inconclusive.append(f"{out.counters['crashed']} of {files} runs ended in an internal error (C18): {out.counters.get('crash_kinds')}")
    return common.finish(out, RULE, ASSUMPTIONS, min_evals=300, min_distinct=30, required_counters=("comparisons_logged", "mutations_after_comparison", "bad_copy_cases"))
