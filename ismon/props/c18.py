"""C18 - end-of-session processing completes for every test program.

In-process part: the union of the other generators plus deliberately "bad" programs within
the documented usage (failing comparisons, exceptions inside tests, nested snapshots whose
parent is replaced/deleted/fixed or which are only reached while aligning, comparisons
that raise, unequal copies, aborted tests, operator misuse, changing arguments), every
approved subset.  Monitors: exception capture around change collection and application,
and an independent overlap check of the recorded replacement ranges.
Real-session part (sample): the harness plugin's hook-wrapper around pytest_sessionfinish.
"""

from __future__ import annotations

import itertools
import random

from .. import common
from .. import gen
from .. import inproc
from .. import program
from . import c02
from . import c05
from . import c10
from .c17 import BAD_CLASSES

PROP = "C18"
CATS = ["create", "fix", "trim", "update"]
ALL_F = [frozenset(c) for n in range(5) for c in itertools.combinations(CATS, n)]
RULE = (
    "files of 3-7 test functions drawn from 40+ parameterised 'bad program' templates (asserting style, so tests abort midway) - failing ==/<=/in/[k], exception before/after a "
    "comparison, comparison that raises TypeError, nested snapshot with parent replaced / element deleted / only aligned / empty inner / inner with pending update, second operator "
    "on a snapshot, argument changing between evaluations, unequal deep copies, star-expressions, f-strings, Is() - mixed with sites from the C02/C05/C10 generators; each file is run "
    "with 4 (quick) / 16 (thorough) approved subsets. case = (file, F); non-trivial = at least one test raised or failed; distinct = (templates in the file, F)."
)
ASSUMPTIONS = [
    "outside the documented usage and not generated: `in` on non-list displays, [k] on non-dict displays, Is() under <= / in",
    "an exception out of _changes()/apply_all()/fix_all() in the in-process driver corresponds to the plugin's pytest_sessionfinish raising (checked directly by the real-session sample)",
]

# each template: lines of a test body (4-space indented later); {a} {b} are random ints, {s} a random str
TEMPLATES = {
    "fail_eq": ["assert {a} == snapshot({b})"],
    "fail_eq_container": ["assert [{a}, {b}] == snapshot([{b}])"],
    "fail_le": ["assert {a} + 10 <= snapshot({a})"],
    "fail_in": ["assert {a} in snapshot([{b}, {b} + 1])"],
    "fail_getitem": ["s = snapshot({{'k': {a}}})", "assert s['k'] == {b}", "assert s['missing'] == 1"],
    "raise_before": ["raise ValueError('boom')", "assert 1 == snapshot(2)"],
    "raise_after": ["assert {a} == snapshot()", "raise RuntimeError('after')"],
    "raise_between": ["s = snapshot([{a}])", "assert {a} in s", "raise KeyError({b})", "assert {b} in s"],
    "cmp_raises_le": ["assert 'a' <= snapshot({a})"],
    "cmp_raises_ge": ["assert None >= snapshot({a})"],
    "cmp_raises_le_second": ["s = snapshot({a})", "assert {a} - 1 <= s", "assert 'x' <= s"],
    "cmp_raises_create": ["s = snapshot()", "assert {a} <= s", "assert 'x' <= s"],
    "cmp_raises_in": ["assert {{}} in snapshot([{a}, {{1: 2}}])", "assert [] in snapshot([[{a}]])"],
    "cmp_raises_le_not_typeerror": ["assert Decimal(1) <= snapshot(Decimal('NaN'))"],
    "cmp_raises_ge_valueerror": ["assert Picky(-{a} - 1) >= snapshot(Picky({b}))", "assert {a} == snapshot({b})"],
    "cmp_raises_le_valueerror_second": ["s = snapshot(Picky({b}))", "assert Picky({a}) <= s", "assert Picky(-1) <= s"],
    "cmp_raises_create_valueerror": ["s = snapshot()", "assert Picky({a}) <= s", "assert Picky(-2) <= s"],
    # values that can be ordered against the stored value in one direction only (the reverse comparison raises) - seeded round 6
    "cmp_one_direction_snapshot_left": ["assert snapshot({a}) <= OneWay({a} + 2)"],
    "cmp_one_direction_snapshot_right": ["assert OneWay({a} + 2) >= snapshot({a})", "assert OneWay({a} + 50) >= snapshot({a})"],
    "cmp_one_direction_ge": ["assert snapshot({a} + 9) >= LowWay({a})"],
    "cmp_one_direction_second": ["s = snapshot({a})", "assert OneWay({a} + 2) >= s", "assert {a} + 1 >= s"],
    "cmp_eq_raises": ["class E:\n        def __eq__(self, o): raise ZeroDivisionError", "assert E() == snapshot({a})"],
    "nested_parent_type_change": ["assert {s!r} == snapshot([snapshot({a} + 0)])"],
    "nested_elem_deleted": ["assert [{a}] == snapshot([{a}, snapshot({b})])"],
    "nested_only_aligned": ["assert [{a}, {b}, 7] == snapshot([{b} + 1, snapshot({b})])"],
    "nested_inner_empty": ["assert [{a}, {b}] == snapshot([snapshot(), {b}])"],
    "nested_inner_empty_aligned": ["assert [0, {a}, {b}] == snapshot([snapshot(), {b}])"],
    "nested_inner_fix": ["assert [{a}, {b}] == snapshot([snapshot({a} + 1), {b}])"],
    "nested_in_dict_deleted": ["assert {{'a': 1}} == snapshot({{'a': 1, 'b': snapshot({a})}})"],
    "nested_in_dict_type_change": ["assert {{'a': [1]}} == snapshot({{'a': snapshot({a})}})"],
    "nested_in_call": ["assert DC(a={a}, b={b}) == snapshot(DC(a=snapshot({a} + 1), b=snapshot({b})))"],
    "nested_twice": ["assert [[{a}]] == snapshot([snapshot([snapshot({b})])])"],
    "nested_two_inner_parent_replaced": ["assert {s!r} == snapshot([snapshot({a}+0), snapshot({b}+0)])"],
    "nested_two_inner_elem_deleted": ["assert [{a}] == snapshot([[snapshot({a}+0), snapshot({b}+0)], {a}])"],
    "nested_three_inner_in_dict_value_replaced": ["assert {{'k': 1}} == snapshot({{'k': [snapshot({a}+0), snapshot({b}+0), snapshot(0+1)], 'gone': (snapshot(2+0), snapshot(3+0))}})"],
    "nested_two_inner_in_deleted_call_arg": ["assert DC(a=1) == snapshot(DC(a=1, b=[snapshot({a}+0), snapshot({b}+0)]))"],
    "subsnapshot_create_trim_blank": ["s = snapshot({{'a': 1, 'unused': 2 }})", "assert s['a'] == 1", "assert s['b'] == {a}"],
    "in_fix_trim_blank": ["for x in (2, {b}):", "    assert x in snapshot([2, 3 ])"],
    "subsnapshot_is_reevaluated": ["for i in range(3):", "    assert snapshot({{'a': Is({a}), 'b': [Is(i)]}})['a'] == {a}"],
    "nested_subsnapshot": ["s = snapshot({{'k': [snapshot({a})]}})", "assert s['k'] == [{b}, {a}]"],
    "nested_le": ["assert [{a}] == snapshot([snapshot({b})])", "assert 1 == snapshot(2)"],
    "second_operator": ["s = snapshot({a})", "assert {a} == s", "assert {a} <= s"],
    "second_operator_undecided": ["s = snapshot()", "assert {a} in s", "assert s[0] == {a}"],
    "changing_argument": ["for i in range(3):", "    assert {a} == snapshot({a} + i)"],
    "changing_argument_container": ["for i in range(3):", "    assert [1] == snapshot([1] * (i + 1))"],
    "unequal_copy_eq": ["assert snapshot() == BadCopy({a})"],
    "unequal_copy_in": ["assert NeverEqual() in snapshot([{a}])"],
    "unequal_copy_le_list": ["assert [LosesState()] <= snapshot()"],
    "unequal_copy_getitem": ["assert snapshot({{'k': {a}}})['k'] == BadCopy(1)"],
    "unequal_copy_nested": ["assert snapshot([{a}]) == [{a}, NeverEqual()]"],
    "star_expr": ["x = [{a}]", "assert [{a}, {b}] == snapshot([*x, {a}])"],
    "star_expr_dict": ["x = {{'a': 1}}", "assert {{'a': 1, 'b': {b}}} == snapshot({{**x, 'b': {a}}})"],
    "fstring": ["x = {a}", "assert 'v{b}' == snapshot(f'v{{x}}')"],
    "is_mismatch": ["assert [{a}, {b}] == snapshot([Is({b}), {a}])"],
    "unreached_after_fail": ["assert {a} == snapshot({b})", "assert {a} <= snapshot()", "assert {a} in snapshot()"],
    "snapshot_never_compared": ["s = snapshot({a} + 0)", "t = snapshot()", "assert True"],
    "defaultdict_one_argument": ["u = snapshot(defaultdict(list))", "for i in range(2):", "    assert defaultdict(list) == snapshot(defaultdict(list))", "d = defaultdict(list)", "d[{a}].append({b})", "assert d == snapshot(defaultdict(list))"],
    "container_never_compared": ["s = snapshot([{a} + 0, {b} + 0, ({a} + 1, {{'k': {b} + 1}})])", "t = snapshot({{'a': 1 + 1, 'b': [2 + 2, Is({a})]}})", "assert True"],
    "snapshot_only_repr": ["s = snapshot([{a}])", "assert repr(s) == '[%d]' % {a}"],
    "getitem_nested_missing": ["s = snapshot({{}})", "assert s['a']['b'] == {a}", "assert {b} in s['c']"],
    "getitem_child_misuse": ["s = snapshot({{'k': {a}}})", "assert s['k'] == {a}", "assert {a} <= s['k']"],
    "mixed_types_fix": ["assert ({a}, {s!r}) == snapshot([{a}, {s!r}])", "assert {{1: 2}} == snapshot([1, 2])", "assert None == snapshot(0)"],
    "external_mismatch": ["assert outsource({s!r}) == snapshot(external('deadbeef*.txt'))"],
    "hasrepr": ["assert Weird({a}) == snapshot(HasRepr(Weird, '<Weird {b}>'))"],
    "deep_fix_delete_insert": ["assert [[1, {a}], {{'k': ({b},)}}, DC(a=[{a}])] == snapshot([[{a}], {{'k': ({a}, {b}), 'z': 0}}, DC(a=[], b={b}), 9])"],
    "same_line_two": ["assert {a} == snapshot({b}); assert {b} == snapshot({a})"],
    "loop_fail_then_pass": ["for x in ({a}, {a}, {b}):", "    assert x == snapshot({a})"],
}


# ordered values whose comparison raises something other than TypeError for some pairs
PICKY = '''

class Picky:
    def __init__(self, n):
        self.n = n

    def __repr__(self):
        return f"Picky({self.n})"

    def __eq__(self, other):
        return type(other) is Picky and other.n == self.n

    def _check(self, other):
        if (self.n < 0) != (other.n < 0):
            raise ValueError("values of different sign cannot be ordered")

    def __le__(self, other):
        if type(other) is not Picky:
            return NotImplemented
        self._check(other)
        return self.n <= other.n

    def __ge__(self, other):
        if type(other) is not Picky:
            return NotImplemented
        self._check(other)
        return self.n >= other.n
'''

PICKY += '''

class OneWay:
    """int <= OneWay works (reflected __ge__), OneWay <= int raises"""

    def __init__(self, n):
        self.n = n

    def __repr__(self):
        return f"OneWay({self.n})"

    def __eq__(self, other):
        return type(other) is OneWay and other.n == self.n

    def __ge__(self, other):
        if isinstance(other, int):
            return self.n >= other
        if type(other) is OneWay:
            return self.n >= other.n
        raise TypeError("can not compare")

    def __le__(self, other):
        if type(other) is OneWay:
            return self.n <= other.n
        raise TypeError("can not compare OneWay with int")


class LowWay:
    """int >= LowWay works (reflected __le__), LowWay >= int raises"""

    def __init__(self, n):
        self.n = n

    def __repr__(self):
        return f"LowWay({self.n})"

    def __eq__(self, other):
        return type(other) is LowWay and other.n == self.n

    def __le__(self, other):
        if isinstance(other, int):
            return self.n <= other
        if type(other) is LowWay:
            return self.n <= other.n
        raise TypeError("can not compare")

    def __ge__(self, other):
        if type(other) is LowWay:
            return self.n >= other.n
        raise TypeError("can not compare LowWay with int")
'''


INVOCATIONS = [("project-root", None, []), ("other-directory-with-dir-argument", "started/elsewhere", ["../.."]), ("other-directory-with-file-argument", "elsewhere", ["../test_a.py"])]


def bad_test(rng, k, name):
    a, b = rng.randint(0, 50), rng.randint(51, 99)
    s = rng.choice(["text", "a b", "x'y", "ü"])
    lines = [ln.format(a=a, b=b, s=s) for ln in TEMPLATES[name]]
    return f"def test_{k}_{name}():\n" + "\n".join("    " + ln for ln in lines) + "\n"


def overlap_in(replacements):
    for fname, reps in replacements.items():
        reps = sorted((tuple(r[0]), tuple(r[1])) for r in reps)
        for (s1, e1), (s2, e2) in zip(reps, reps[1:]):
            if e1 > s2:
                return fname, (s1, e1), (s2, e2)
    return None


def run_shard(args):
    tier = args.tier
    ncases = {"quick": 45, "thorough": 900}[tier]
    C = {"files": 0, "runs": 0, "tests_raised": 0, "replacement_sets_checked": 0, "replacements": 0, "templates": {}, "collect_ok": 0}
    out = {"evaluations": 0, "signatures": set(), "samples": [], "violations": [], "counters": C, "inconclusive": []}
    names = sorted(TEMPLATES)
    header = inproc.HEADER_FULL + "from dirty_equals import IsInt, IsStr\nfrom decimal import Decimal\n" + BAD_CLASSES + PICKY + "\n"
    for c in range(ncases):
        rng = random.Random(f"{args.seed}/{PROP}/{args.shard}/{c}")
        picked = [names[(args.shard * ncases + c) % len(names)]] + [rng.choice(names) for _ in range(rng.randint(2, 6))]
        tests = [bad_test(rng, k, n) for k, n in enumerate(picked)]
        # plus generated sites (asserting style => aborts at the first failing one)
        gsrc = ""
        U = []
        if rng.random() < 0.6:
            mk = rng.choice(["c02", "c05", "c10"])
            if mk == "c10":
                used = set()
                sites = []
                for i in range(rng.randint(1, 3)):
                    root = c10.gen_cont(rng, 2, used, U)
                    st = {"must": [], "inconsistent": False, "snap_changed": False, "dirty": 0}
                    obs = c10.observe(root, rng, used, st, [])
                    sites.append({"id": 100 + i, "op": "eq", "old": c10.old_text(root), "obs": [obs], "place": "loop"})
            else:
                f = c02.make_site if mk == "c02" else c05.make_site
                sites = [f(rng, 100 + i, 2) for i in range(rng.randint(1, 4))]
            body, _ = program.build(sites, style=rng.choice(["assert", "rec"]), tests=1, header="")
            gsrc = body.replace("def test_0():", "def test_generated():")
        src = header + "U = [" + ", ".join(U) + "]\n" + "\n".join(tests) + "\n" + gsrc
        C["files"] += 1
        for n in picked:
            C["templates"][n] = C["templates"].get(n, 0) + 1
        subsets = ALL_F if tier == "thorough" else [frozenset(), frozenset(CATS), frozenset({"fix"})] + [rng.choice(ALL_F)]
        for F in subsets:
            res = inproc.run({"test_a.py": src}, F)
            C["runs"] += 1
            wit = {"files": {"test_a.py": src}, "flags": sorted(F)}
            if res.exec_exc:
                out["inconclusive"].append(f"module failed: {res.exec_exc}")
                break
            out["evaluations"] += 1
            C["tests_raised"] += len(res.test_exc)
            if res.test_exc:
                out["signatures"].add(f"{'+'.join(sorted(set(picked)))}/{'+'.join(sorted(F)) or '-'}")
            if res.collect_exc:
                out["violations"].append({"kind": "internal-error-while-collecting-changes", "detail": {"F": sorted(F), "exception": res.collect_exc, "templates": picked}, "witness": wit, "finding": None})
            else:
                C["collect_ok"] += 1
            if res.apply_exc:
                out["violations"].append({"kind": "internal-error-while-applying-changes", "detail": {"F": sorted(F), "exception": res.apply_exc, "templates": picked}, "witness": wit, "finding": None})
            C["replacement_sets_checked"] += 1
            C["replacements"] += sum(len(v) for v in res.replacements.values())
            ov = overlap_in(res.replacements)
            if ov:
                out["violations"].append({"kind": "overlapping-replacements", "detail": {"F": sorted(F), "overlap": ov, "templates": picked}, "witness": wit, "finding": None})
            if not res.crashed():
                new = res.files_after["test_a.py"].decode()
                try:
                    compile(new, "test_a.py", "exec")
                except SyntaxError as e:
                    out["violations"].append({"kind": "unparsable-after-session-end", "detail": {"F": sorted(F), "error": str(e), "templates": picked, "new": new[-2500:]}, "witness": wit, "finding": None})
        if len(out["samples"]) < 2:
            out["samples"].append({"templates": picked, "file_tail": src[-1500:]})
    # ---- real sessions: the plugin's own session-end path (per-category virtual application, diff
    # rendering, review prompts) over the same bad programs; detector = hook-wrapper around pytest_sessionfinish
    from .. import session

    REAL_FLAGS = [(["--inline-snapshot=create,fix,trim,update"], None), (["--inline-snapshot=create,trim"], None), (["--inline-snapshot=fix,update"], None), (["--inline-snapshot=report"], None), (["--inline-snapshot=review"], b"y\ny\ny\ny\n"), (["--inline-snapshot=review"], b"n\ny\nn\ny\n"), ([], None), (["--inline-snapshot=trim,update"], None)]
    nreal = {"quick": 1 if args.shard < 8 else 0, "thorough": 10}[tier]
    for c in range(nreal):
        rng = random.Random(f"{args.seed}/{PROP}/session/{args.shard}/{c}")
        picked = [names[(args.shard * 7 + c * 3 + j) % len(names)] for j in range(2)] + [rng.choice(names) for _ in range(rng.randint(3, 7))]
        picked = [n for n in picked if n not in ("cmp_eq_raises",)]
        if c == 0:
            picked = ["subsnapshot_create_trim_blank", "in_fix_trim_blank"] + picked  # categories that meet in one container
        tests = [bad_test(rng, k, n) for k, n in enumerate(picked)]
        gsites = [c05.make_site(rng, 100 + i, 2) for i in range(rng.randint(2, 5))]
        for gs in gsites:
            if gs["place"] == "module":
                gs["place"] = "loop"
        body, _ = program.build(gsites, style="rec", tests=1, header="")
        src = header + "U = []\n" + "\n".join(tests) + "\n" + body.replace("def test_0():", "def test_generated():")
        fargs, stdin = REAL_FLAGS[(args.shard + c) % len(REAL_FLAGS)]
        # how pytest is started: in the project root, or in another directory with the path of the tests as argument
        iname, cwd_sub, pathargs = INVOCATIONS[(args.shard // 2 + c) % len(INVOCATIONS)]
        C["invocation_" + iname] = C.get("invocation_" + iname, 0) + 1
        pfiles = {"test_a.py": src}
        extra_args = []
        if (args.shard + c) % 2 == 0:
            # snapshots evaluated by code that has no source file of its own (doctest examples, exec'd documentation
            # samples): they hold, nothing has to be rewritten for them - they must not disturb the end of the session
            pfiles["calc.py"] = 'def gcd(a, b):\n    """\n    >>> from inline_snapshot import snapshot\n    >>> gcd(4, 6) == snapshot(2)\n    True\n    """\n    while b:\n        a, b = b, a % b\n    return a\n'
            pfiles["test_exec.py"] = "def test_exec_sample():\n    ns = {}\n    exec('from inline_snapshot import snapshot\\nassert 1 == snapshot(1)\\nassert [1, 2] == snapshot([1, 2])\\n', ns)\n"
            extra_args = ["--doctest-modules"]
            C["sessions_with_sourceless_snapshots"] = C.get("sessions_with_sourceless_snapshots", 0) + 1
        if (args.shard + c) % 3 == 1 and not pathargs:
            # a test module that cannot be imported (still being edited): an ordinary collection error for pytest,
            # the other modules' snapshots are processed as usual
            pfiles["test_being_edited.py"] = "from inline_snapshot import snapshot\n\n\ndef test_unfinished(:\n    assert 1 == snapshot(\n"
            C["sessions_with_unimportable_module"] = C.get("sessions_with_unimportable_module", 0) + 1
        proj = session.Project(pfiles)
        try:
            r = session.run_session(proj, fargs + extra_args + pathargs, cwd_sub=cwd_sub, env={"FORCE_COLOR": "true", "PYTHONPATH": ":".join([common.SRC, str(common.VERIF), str(common.VERIF / "stubs")])} if stdin else {"PYTHONPATH": ":".join([common.SRC, str(common.VERIF), str(common.VERIF / "stubs")])}, stdin=stdin)
        finally:
            proj.close()
        C["real_sessions"] = C.get("real_sessions", 0) + 1
        out["evaluations"] += 1
        out["signatures"].add(f"real-session/{'+'.join(sorted(set(picked)))[:80]}/{' '.join(fargs) or 'default'}/{iname}")
        wit = {"files": {"test_a.py": src}, "args": fargs + pathargs, "cwd_sub": cwd_sub, "stdin": stdin.decode() if stdin else None}
        if r.timeout or not r.audit:
            out["inconclusive"].append(f"real session produced no audit log: exit={r.exit} {r.stderr[-300:]}")
            continue
        exc = [a for a in r.audit if a["kind"] == "sessionfinish_exception"]
        if exc:
            out["violations"].append({"kind": "pytest_sessionfinish-raised", "detail": {"args": fargs, "templates": picked, "events": exc, "stderr_tail": r.stderr[-800:]}, "witness": wit, "finding": None})
        if not any(a["kind"] in ("sessionfinish_ok", "sessionfinish_exception") for a in r.audit):
            out["violations"].append({"kind": "session-end-not-reached", "detail": {"args": fargs, "templates": picked, "exit": r.exit, "stdout_tail": r.stdout[-500:]}, "witness": wit, "finding": None})
        new = r.after.get("test_a.py", b"").decode()
        try:
            compile(new, "test_a.py", "exec")
        except SyntaxError as e:
            out["violations"].append({"kind": "unparsable-after-session-end(real session)", "detail": {"args": fargs, "templates": picked, "error": str(e)}, "witness": wit, "finding": None})
    out["signatures"] = sorted(out["signatures"])
    return out


def replay(data):
    res = inproc.run(data["witness"]["files"], data["witness"]["flags"])
    print("tests raised:", res.test_exc)
    print("collect:", res.collect_exc, "apply:", res.apply_exc)
    return 1 if res.crashed() else 0


def main(tier, seed):
    out = common.Outcome(PROP, tier, seed)
    stub = str(common.VERIF / "stubs")
    env = {"PYTHONPATH": ":".join([common.SRC, str(common.VERIF), stub])}
    for sh in common.run_shards(PROP, tier, seed, env_extra=env):
        out.merge(sh)
    return common.finish(out, RULE, ASSUMPTIONS, min_evals=300, min_distinct=50, required_counters=("tests_raised", "replacement_sets_checked", "replacements", "collect_ok"))
