"""C19 - the public testing helpers reproduce what a real session does.

For generated projects without externals the same original files go through three drivers
with the same category flags: inline_snapshot.testing.Example.run_inline (in-process),
Example.run_pytest (subprocess) and a raw `python -m pytest --inline-snapshot=<flags>`
session; the resulting test files must be identical, and run_inline's reported categories
must equal those a real short-report session reports.
"""

from __future__ import annotations

import itertools
import os
import random
import re

from .. import common
from .. import gen
from .. import inproc
from .. import program
from .. import session
from . import c02
from . import c05

PROP = "C19"
CATS = ["create", "fix", "trim", "update"]
RULE = (
    "projects of 1-3 test files made of plain argument-less test_* functions (asserting style; sites from the C02/C05 generators incl. failing tests, tests raising exceptions, "
    "module-level snapshots, HasRepr values with and without an existing import, formatter-clean and unclean files; with and without a pyproject.toml carrying [tool.black] options); "
    "each project x 3-4 category subsets is run through run_inline, run_pytest and a raw session; case = (project, F); non-trivial = at least one driver changed a file; "
    "distinct = (project features, F, categories pending)."
)
ASSUMPTIONS = [
    "within what run_inline documents: every test_* function of every *.py file, no fixtures, no parametrisation, no classes, no externals",
    "pydantic models are not used: defined inside a file that run_inline executes with a bare globals dict they are 'not fully defined' (a pydantic/exec artefact, not a property of the drivers)",
    "category comparison uses `--inline-snapshot=short-report` of a raw session (counts categories irrespective of diff visibility, like run_inline's reported_categories)",
]


VP_INLINE = inproc.VP_TEXT.split('"""', 2)[2].split("LOG = []")[0]


class Anything:
    def __eq__(self, other):
        self.value = other
        return True

    def __ne__(self, other):
        return False


def gen_project(rng):
    feats = set()
    files = {}
    nfiles = rng.randint(1, 3)
    for fi in range(nfiles):
        mk = c02.make_site if rng.random() < 0.5 else c05.make_site
        sites = []
        for i in range(rng.randint(2, 6)):
            s = mk(rng, i, 2)
            if s["place"] in ("helper", "comp"):
                s["place"] = "loop"
            if any("outsource(" in str(o) for o in s["obs"]) or "external(" in str(s.get("old")):
                continue
            if re.search(r"\bPM\b", str(s["obs"]) + " " + str(s.get("old"))):
                continue  # pydantic models cannot be instantiated in run_inline's bare exec namespace ("class not fully defined")
            sites.append(s)
        if not sites:
            sites = [{"id": 0, "op": "eq", "old": None, "obs": ["1"], "place": "loop"}]
        # the same values in every project: their code depends on the project's formatter options only
        sites.append({"id": 0, "op": "eq", "old": None, "obs": ["list(range(1000, 1012))"], "place": "loop", "sig": "same-value-everywhere"})
        sites.append({"id": 0, "op": "eq", "old": None, "obs": ["'hello ' + 'world'"], "place": "loop", "sig": "same-value-everywhere"})
        for k, s in enumerate(sites):
            s["id"] = k
        hasrepr_import = rng.random() < 0.5
        # run_inline executes each file on its own (the example directory is not importable): the user
        # classes are defined inside every test file
        header = "from inline_snapshot import snapshot, Is" + (", HasRepr" if hasrepr_import else "") + "\n" + VP_INLINE + "\n"
        if any("Weird(" in str(s["obs"]) for s in sites):
            feats.add("hasrepr" + ("+import" if hasrepr_import else "-import"))
        if any("HasRepr(" in str(s.get("old")) for s in sites) and not hasrepr_import:
            header = header.replace(", Is", ", Is, HasRepr")
        if any(s["place"] == "module" for s in sites):
            feats.add("module-level")
        src, order = program.build(sites, style="assert", tests=rng.randint(1, 3), header=header)
        if rng.random() < 0.3:
            src += "\ndef test_raises():\n    s = snapshot()\n    assert 5 == s\n    raise ValueError('boom')\n"
            feats.add("raising-test")
        if fi == 0:
            # one function bound to two collected names: pytest runs it once per name, and so must run_inline (seeded round 6)
            src += "\nCALLS = []\n\n\ndef test_counted():\n    CALLS.append(1)\n    assert len(CALLS) <= snapshot()\n\n\ntest_counted_alias = test_counted\n"
            feats.add("aliased-test-function")
        if rng.random() < 0.4:
            import black

            try:
                src = black.format_str(src, mode=black.FileMode())
                feats.add("clean")
            except Exception:
                pass
        # both of pytest's default test-file patterns (test_*.py and *_test.py)
        if rng.random() < 0.3:
            files[f"f{fi}_test.py"] = src
            feats.add("suffix-test-file")
        else:
            files[f"test_f{fi}.py"] = src
    if rng.random() < 0.3:
        ll = rng.choice([30, 60, 100])
        files["pyproject.toml"] = f"[tool.black]\nline-length = {ll}\n" + ("skip-string-normalization = true\n" if rng.random() < 0.5 else "")
        feats.add("pyproject-black")
    return files, feats


VP_TEXT = inproc.VP_TEXT
VP_INLINE = VP_TEXT.split('"""', 2)[2].split("LOG = []")[0]


def option_list(F, split=False):
    """the flags as one option, or spread over two occurrences of the option (every driver must read them the same way)"""
    fl = sorted(F)
    if not fl:
        return []
    if split and len(fl) >= 2:
        return ["--inline-snapshot=" + fl[0], "--inline-snapshot=" + ",".join(fl[1:])]
    return ["--inline-snapshot=" + ",".join(fl)]


def via_example(files, F, kind, split=False):
    """returns (new files dict, reported categories or None, error)"""
    from inline_snapshot.testing import Example

    allf = dict(files)
    args = option_list(F, split)
    import contextlib
    import io

    buf = io.StringIO()
    try:
        with contextlib.redirect_stdout(buf):
            ex = Example(allf)
            if kind == "inline":
                rec = Anything()
                # vp.py contains no test_* functions: run_inline executes it like any other *.py file
                new = ex.run_inline(args, reported_categories=rec, raises=Anything())
                return {k: v for k, v in new.files.items() if k in files}, getattr(rec, "value", None), None
            new = ex.run_pytest(args + ["-p", "no:cacheprovider", "-p", "no:benchmark"], returncode=Anything())
            return {k: v for k, v in new.files.items() if k in files}, None, None
    except BaseException as e:
        import traceback

        return None, None, f"{type(e).__name__}: {e}\n{traceback.format_exc()[-600:]}"


def raw_session(files, F, extra=(), split=False):
    allf = dict(files)
    proj = session.Project(allf, with_vp=False)
    try:
        args = option_list(F, split) + list(extra)
        r = session.run_session(proj, args)
        new = {k: r.after[k].decode("utf-8") for k in files if k in r.after}
        return new, r
    finally:
        proj.close()


SHORT = {"incorrect values": "fix", "can be trimmed": "trim", "missing": "create", "changed its representation": "update", "changed their representation": "update"}


def categories_from_short_report(stdout):
    out = set()
    for line in stdout.splitlines():
        for pat, cat in SHORT.items():
            if pat in line and "--inline-snapshot=" + cat in line:
                out.add(cat)
    return out


def run_shard(args):
    tier = args.tier
    nproj = {"quick": 2, "thorough": 40}[tier]
    os.environ["TMPDIR"] = str(common.tmp_root())
    import tempfile

    tempfile.tempdir = None
    C = {"projects": 0, "driver_runs": 0, "three_way_comparisons": 0, "changed_by_some_driver": 0, "category_comparisons": 0, "features": {}, "driver_errors": 0}
    out = {"evaluations": 0, "signatures": set(), "samples": [], "violations": [], "counters": C, "inconclusive": []}
    for c in range(nproj):
        rng = random.Random(f"{args.seed}/{PROP}/{args.shard}/{c}")
        files, feats = gen_project(rng)
        C["projects"] += 1
        for f in feats:
            C["features"][f] = C["features"].get(f, 0) + 1
        subsets = [frozenset(CATS)] + [frozenset(x for x in CATS if rng.random() < 0.5) for _ in range(3 if tier == "thorough" else 1)]
        if tier == "thorough" or c % 2:
            subsets.append(frozenset({"create", "fix"}))
        wit_files = dict(files)
        # categories: run_inline([]) vs raw short-report
        _, cats_inline, err = via_example(files, frozenset(), "inline")
        C["driver_runs"] += 1
        if err:
            C["driver_errors"] += 1
            out["violations"].append({"kind": "run_inline-raised", "detail": {"error": err, "features": sorted(feats)}, "witness": {"files": wit_files, "flags": []}, "finding": None})
            continue
        _, r = raw_session(files, frozenset(), ["--inline-snapshot=short-report"])
        C["driver_runs"] += 1
        cats_raw = categories_from_short_report(r.stdout)
        C["category_comparisons"] += 1
        if cats_inline is not None and set(cats_inline) != cats_raw:
            out["violations"].append({"kind": "reported-categories-differ", "detail": {"run_inline": sorted(cats_inline), "raw_short_report": sorted(cats_raw), "features": sorted(feats), "stdout_tail": r.stdout[-600:]}, "witness": {"files": wit_files, "flags": ["short-report"]}, "finding": classify(files, feats, None)})
        for si, F in enumerate(subsets):
            split = len(F) >= 2 and (si + c + args.shard) % 3 == 0
            if split:
                C["flags_spread_over_two_options"] = C.get("flags_spread_over_two_options", 0) + 1
            a, _, ea = via_example(files, F, "inline", split)
            b, _, eb = via_example(files, F, "pytest", split)
            cfiles, rr = raw_session(files, F, split=split)
            C["driver_runs"] += 3
            wit = {"files": wit_files, "flags": sorted(F), "split": split}
            if ea or eb:
                C["driver_errors"] += 1
                out["violations"].append({"kind": "example-driver-raised", "detail": {"run_inline": ea, "run_pytest": eb, "F": sorted(F), "features": sorted(feats)}, "witness": wit, "finding": None})
                continue
            out["evaluations"] += 1
            C["three_way_comparisons"] += 1
            changed = any(x != files for x in (a, b, cfiles))
            if changed:
                C["changed_by_some_driver"] += 1
                out["signatures"].add(f"{'+'.join(sorted(feats)) or 'plain'}/{'+'.join(sorted(F)) or '-'}/{'+'.join(sorted(cats_raw))}")
            for name_x, x, name_y, y in (("run_inline", a, "raw session", cfiles), ("run_pytest", b, "raw session", cfiles)):
                if x != y:
                    import difflib

                    diffs = []
                    for fn in sorted(files):
                        if x.get(fn) != y.get(fn):
                            diffs.append(fn + ":\n" + "\n".join(difflib.unified_diff((x.get(fn) or "").splitlines(), (y.get(fn) or "").splitlines(), name_x, name_y, lineterm="", n=0))[:1200])
                    out["violations"].append({"kind": f"{name_x.replace(' ', '_')}-differs-from-raw-session", "detail": {"F": sorted(F), "features": sorted(feats), "diff": "\n".join(diffs)[:2500]}, "witness": wit, "finding": classify(files, feats, F) if name_x == "run_inline" else None})
        if len(out["samples"]) < 1:
            out["samples"].append({"features": sorted(feats), "files": {k: v[:700] for k, v in files.items()}, "categories": sorted(cats_raw)})
    out["signatures"] = sorted(out["signatures"])
    return out


def classify(files, feats, F):
    return None


def replay(data):
    files = data["witness"]["files"]
    F = frozenset(data["witness"]["flags"]) - {"short-report"}
    a, cats, ea = via_example(files, F, "inline")
    c, r = raw_session(files, F)
    print("run_inline error:", ea)
    for k in files:
        print("=====", k, "run_inline == raw:", (a or {}).get(k) == c.get(k))
    return 0


def main(tier, seed):
    out = common.Outcome(PROP, tier, seed)
    for sh in common.run_shards(PROP, tier, seed):
        out.merge(sh)
    return common.finish(out, RULE, ASSUMPTIONS, min_evals=40, min_distinct=15, required_counters=("three_way_comparisons", "changed_by_some_driver", "category_comparisons"))
