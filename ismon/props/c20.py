"""C20 - a formatter-clean test file stays formatter-clean.

Projects with a pyproject.toml [tool.black] section (line length, magic trailing comma,
string normalisation, preview); test files made clean by the harness with exactly that
mode (and deliberately unclean ones); changes that force re-wrapping.  Oracle: the harness
builds black.Mode itself from the generated options and checks black(new) == new; the
wrapper around black.format_str records the final whole-file call so that instability of
black itself (black(black(x)) != black(x)) is told apart from a missing/wrong final format.
Unclean files: the byte oracle of C03 (nothing outside the edited arguments moves).
"""

from __future__ import annotations

import random

from .. import common
from .. import gen
from .. import inproc
from .. import program
from . import c02
from . import c03

PROP = "C20"
CATS = ["create", "fix", "trim", "update"]
RULE = (
    "projects with [tool.black] options drawn from line-length {20,30,40,60,79,88,100,120} x skip-magic-trailing-comma x skip-string-normalization x preview (and projects without "
    "pyproject.toml); test files from the C02 generator (values just over the line limit, inserted elements, multi-line strings, nesting) formatted clean by the harness with "
    "that mode (70%) or left unclean (30%); approved subset {create,fix} / all / random; case = (file, options, F); non-trivial = the run changed the file; "
    "distinct = (options, clean?, F, change classes)."
)
ASSUMPTIONS = [
    "the session runs with cwd = project root (black resolves pyproject.toml from the cwd; the pytest plugin runs there as well)",
    "instability of black itself (the recorded final whole-file call returned text that black would change again) is counted separately and is not a violation",
]


def gen_options(rng):
    if rng.random() < 0.15:
        return None
    o = {}
    if rng.random() < 0.8:
        o["line-length"] = rng.choice([20, 30, 40, 60, 79, 88, 100, 120])
    if rng.random() < 0.3:
        o["skip-magic-trailing-comma"] = True
    if rng.random() < 0.3:
        o["skip-string-normalization"] = True
    if rng.random() < 0.2:
        o["preview"] = True
    return o


def mode_for(o):
    import black

    m = black.FileMode()
    if not o:
        return m
    import dataclasses

    kw = {}
    if "line-length" in o:
        kw["line_length"] = o["line-length"]
    if o.get("skip-magic-trailing-comma"):
        kw["magic_trailing_comma"] = False
    if o.get("skip-string-normalization"):
        kw["string_normalization"] = False
    if o.get("preview"):
        kw["preview"] = True
    return dataclasses.replace(m, **kw)


def pyproject(o):
    if o is None:
        return None
    lines = ["[tool.black]"]
    for k, v in o.items():
        lines.append(f"{k} = {str(v).lower() if isinstance(v, bool) else v}")
    return "\n".join(lines) + "\n"


class FormatRecorder:
    def __enter__(self):
        import black

        self.real = black.format_str
        self.calls = []

        def rec(src, *, mode):
            out = self.real(src, mode=mode)
            self.calls.append((src, mode, out))
            return out

        black.format_str = rec
        return self

    def __exit__(self, *a):
        import black

        black.format_str = self.real


def run_shard(args):
    import black

    tier = args.tier
    ncases = {"quick": 30, "thorough": 900}[tier]
    C = {"files": 0, "runs": 0, "crashed": 0, "clean_files_changed": 0, "unclean_files_changed": 0, "clean_checks": 0, "byte_checks": 0, "black_instability": 0, "format_calls_recorded": 0, "crash_kinds": {}, "options": {}}
    out = {"evaluations": 0, "signatures": set(), "samples": [], "violations": [], "counters": C, "inconclusive": []}
    for c in range(ncases):
        rng = random.Random(f"{args.seed}/{PROP}/{args.shard}/{c}")
        o = gen_options(rng)
        mode = mode_for(o)
        sites = [c02.make_site(rng, i, 3) for i in range(rng.randint(3, 8))]
        # values that straddle the line limit
        ll = (o or {}).get("line-length", 88)
        for i in range(len(sites), len(sites) + 2):
            n = max(1, (ll - 30) // 4 + rng.randint(-2, 2))
            sites.append({"id": i, "op": "eq", "place": "loop", "old": "[" + ", ".join(str(100 + j) for j in range(n)) + "]", "obs": ["[" + ", ".join(str(100 + j) for j in range(n + rng.randint(0, 2))) + "]"], "edits": ["straddle"], "sig": "straddle"})
        style = rng.choice(["rec", "assert"])
        src, order = program.build(sites, style=style, tests=rng.randint(1, 3))
        if rng.random() < 0.5:
            # statements whose black layout depends on the (inferred) target versions: several context managers
            # on a line that is too long, a call with * and ** arguments that has to be exploded
            C["target_version_sensitive_files"] = C.get("target_version_sensitive_files", 0) + 1
            pad = "x" * max(4, ll // 3)
            src += (
                "\n\nimport contextlib\n\n\ndef _collect_" + pad + "(*args, **kwargs):\n    return [*args, *kwargs]\n\n\n"
                "def test_target_versions():\n"
                f"    values_{pad} = [1, 2]\n    options_{pad} = {{'k': 1}}\n"
                f"    with contextlib.nullcontext(11111) as first_manager_{pad}, contextlib.nullcontext(22222) as second_manager_{pad}:\n"
                f"        assert [first_manager_{pad}, second_manager_{pad}] == snapshot([11111])\n"
                f"    assert _collect_{pad}(*values_{pad}, **options_{pad}) == snapshot([1, 2, 'k', 'and a string that is replaced'])\n"
            )
        clean = rng.random() < 0.7
        if clean:
            try:
                src = black.format_str(src, mode=mode)
                if black.format_str(src, mode=mode) != src:
                    continue  # black not idempotent on the seed file itself
            except Exception:
                continue
        else:
            try:
                if black.format_str(src, mode=mode) == src:
                    clean = True
            except Exception:
                pass
        name = "test_a.py"
        files = {}
        pp = pyproject(o)
        if rng.random() < 0.2:
            # the documented default configuration block: an empty format-command is "no command"
            pp = (pp or "") + '\n[tool.inline-snapshot]\nformat-command=""\n'
            C["projects_with_empty_format_command"] = C.get("projects_with_empty_format_command", 0) + 1
        if pp:
            files["pyproject.toml"] = pp
            if rng.random() < 0.3:
                # monorepo layout: the test lives in a sub-package whose own pyproject.toml has no [tool.black]
                # section; black (and `black --check`) keeps searching upwards and uses the parent's options
                name = "pkg/test_a.py"
                files["pkg/pyproject.toml"] = '[project]\nname = "pkg"\nversion = "1"\n'
                C["nested_pyproject_layouts"] = C.get("nested_pyproject_layouts", 0) + 1
        files[name] = src
        C["files"] += 1
        okey = ",".join(f"{k}={v}" for k, v in (o or {"none": 1}).items())
        C["options"][okey] = C["options"].get(okey, 0) + 1
        for F in (frozenset({"create", "fix"}), frozenset(CATS), frozenset(x for x in CATS if rng.random() < 0.5)):
            with FormatRecorder() as fr:
                res = inproc.run(files, F)
            C["runs"] += 1
            C["format_calls_recorded"] += len(fr.calls)
            wit = {"files": files, "flags": sorted(F), "options": o}
            if res.exec_exc:
                if style == "rec":
                    out["inconclusive"].append(f"module failed: {res.exec_exc}")
                break
            if res.crashed():
                C["crashed"] += 1
                k = str((res.collect_exc or res.apply_exc)[::2])
                C["crash_kinds"][k] = C["crash_kinds"].get(k, 0) + 1
                continue
            new = res.files_after[name].decode()
            out["evaluations"] += 1
            changed = new != src
            kinds = sorted({k for s in res.sites for k in s.get("kinds", [])})
            if changed:
                out["signatures"].add(f"{okey}/{'clean' if clean else 'unclean'}/{'+'.join(sorted(F)) or '-'}/{'+'.join(kinds)}")
            base = {"options": o, "F": sorted(F), "clean_before": clean}
            if clean:
                if not changed:
                    continue
                C["clean_files_changed"] += 1
                C["clean_checks"] += 1
                try:
                    again = black.format_str(new, mode=mode)
                except Exception as e:
                    out["violations"].append({"kind": "rewritten-file-not-formattable", "detail": {**base, "error": repr(e)[:300], "new": new[:2500]}, "witness": wit, "finding": None})
                    continue
                if again != new:
                    # was the final whole-file call made with the right mode?
                    final = [cl for cl in fr.calls if cl[2] == new]
                    if final and final[-1][1] == mode:
                        C["black_instability"] += 1
                        continue
                    import difflib

                    diff = "\n".join(difflib.unified_diff(new.splitlines(), again.splitlines(), "written", "black(written)", lineterm="", n=0))
                    modes = sorted({str(cl[1].line_length) for cl in fr.calls})
                    out["violations"].append({"kind": "clean-file-not-clean-after-rewrite", "detail": {**base, "diff": diff[:1500], "final_whole_file_format_seen": bool(final), "line_lengths_used": modes}, "witness": wit, "finding": None})
            else:
                if not changed:
                    continue
                C["unclean_files_changed"] += 1
                C["byte_checks"] += 1
                try:
                    old_spans, _ = c03.call_spans(src)
                    new_spans, _ = c03.call_spans(new)
                except SyntaxError as e:
                    out["violations"].append({"kind": "unparsable", "detail": {**base, "error": str(e), "new": new[:2500]}, "witness": wit, "finding": None})
                    continue
                if c03.mask(src, old_spans) != c03.mask(new, new_spans):
                    import difflib

                    diff = "\n".join(difflib.unified_diff(c03.mask(src, old_spans).splitlines(), c03.mask(new, new_spans).splitlines(), lineterm="", n=0))
                    out["violations"].append({"kind": "unclean-file-relaid-out-outside-edited-arguments", "detail": {**base, "diff": diff[:1500]}, "witness": wit, "finding": None})
                # the fragments must be formatted with the project's mode, not the default one
                wrong = [cl for cl in fr.calls if cl[1] != mode]
                if wrong:
                    out["violations"].append({"kind": "fragment-formatted-with-wrong-mode", "detail": {**base, "used_line_length": wrong[0][1].line_length, "expected_line_length": mode.line_length}, "witness": wit, "finding": None})
        if len(out["samples"]) < 2:
            out["samples"].append({"options": o, "clean": clean, "file_head": src[:1000]})
    out["signatures"] = sorted(out["signatures"])
    return out


def replay(data):
    res = inproc.run(data["witness"]["files"], data["witness"]["flags"])
    print(res.collect_exc, res.apply_exc)
    print(res.files_after["test_a.py"].decode())
    return 0


def main(tier, seed):
    out = common.Outcome(PROP, tier, seed)
    for sh in common.run_shards(PROP, tier, seed):
        out.merge(sh)
    runs = out.counters.get("runs", 0)
    if runs and out.counters.get("crashed", 0) > 0.05 * runs:
        out.inconclusive.append(f"{out.counters['crashed']} of {runs} runs ended in an internal error (C18): {out.counters.get('crash_kinds')}")
    return common.finish(out, RULE, ASSUMPTIONS, min_evals=200, min_distinct=30, required_counters=("clean_checks", "byte_checks", "format_calls_recorded"))
