"""Real-session driver: python -m pytest with the harness plugin, in the project
directory, environment scrubbed of CI variables; collects exit status, stdout/stderr,
junit outcomes, the audit log and before/after content of every project file."""

from __future__ import annotations

import hashlib
import itertools
import json
import os
import shutil
import subprocess
import time
import xml.etree.ElementTree as ET
from pathlib import Path

from . import common
from . import inproc

_counter = itertools.count()


class Project:
    """bytecode=True (default): the sessions write and use byte-code caches like a user's do.  A cache entry is
    keyed by (whole seconds of the source's mtime, size), and the harness runs sessions a few hundred
    milliseconds apart, so it keeps a logical clock: files start far in the past, and every file a session
    (or the harness) *re-times* moves 10 s forward.  A file whose content was changed while its mtime was
    deliberately kept is left alone - then the next session really runs the stale byte code."""

    def __init__(self, files: dict, with_vp=True, bytecode=True):
        self.dir = common.tmp_root() / f"proj{os.getpid()}_{next(_counter)}"
        if self.dir.exists():
            shutil.rmtree(self.dir)
        self.dir.mkdir(parents=True)
        self.bytecode = bytecode
        self._clock = time.time() - 1_000_000
        inproc.write_project(self.dir, files, with_vp=with_vp)
        if bytecode:
            self.retime(self.py_mtimes(), everything=True)

    def write(self, files):
        if self.bytecode:
            # an editor only touches the files it changes
            files = {k: v for k, v in files.items() if not (self.dir / k).exists() or (self.dir / k).read_bytes() != (v if isinstance(v, bytes) else v.encode("utf-8"))}
            before = self.py_mtimes()
            inproc.write_project(self.dir, files, with_vp=False)
            self.retime(before)
        else:
            inproc.write_project(self.dir, files, with_vp=False)

    def py_mtimes(self):
        return {p: p.stat().st_mtime_ns for p in self.dir.rglob("*.py") if "__pycache__" not in str(p)}

    def retime(self, before, everything=False):
        for p, m in self.py_mtimes().items():
            if everything or before.get(p) != m:
                self._clock += 10
                os.utime(p, (self._clock, self._clock))

    def snapshot(self):
        """relative path -> bytes for every file of the project (caches and harness files excluded)"""
        out = {}
        for p in sorted(self.dir.rglob("*")):
            if not p.is_file():
                continue
            rel = str(p.relative_to(self.dir))
            if "__pycache__" in rel or rel.startswith(".pytest_cache") or rel.endswith((".pyc", "junit.xml", "audit.jsonl")):
                continue
            out[rel] = p.read_bytes()
        return out

    def close(self):
        shutil.rmtree(self.dir, ignore_errors=True)


class SessionResult:
    pass


def run_session(proj: Project, args=(), env=None, stdin=None, timeout=120, hashseed="0", plugin=True, failpoint=None, cwd_sub=None, cache=False):
    """cwd_sub: start pytest in this (created, otherwise empty) sub-directory of the project; the caller
    passes the path of the tests (e.g. `..`) among args"""
    junit = proj.dir / "junit.xml"
    audit = proj.dir / "audit.jsonl"
    for f in (junit, audit):
        if f.exists():
            f.unlink()
    before = proj.snapshot()
    extra = {"VERIF_AUDIT_LOG": str(audit), "VERIF_PROJECT_ROOT": str(proj.dir)}
    if failpoint:
        extra["VERIF_FAILPOINT"] = failpoint
    if env:
        extra.update(env)
    e = common.child_env(extra, hashseed=hashseed)
    mt0 = None
    if getattr(proj, "bytecode", False):
        e.pop("PYTHONDONTWRITEBYTECODE", None)
        mt0 = proj.py_mtimes()
    cmd = [common.PY, "-m", "pytest"] + ([] if cache else ["-p", "no:cacheprovider"]) + ["-p", "no:benchmark", "-p", "no:randomly", f"--junitxml={junit}", "-o", "junit_family=xunit1"]
    if plugin:
        cmd += ["-p", "ismon.verif_mon"]
    cmd += list(args)
    r = SessionResult()
    try:
        cwd = proj.dir
        if cwd_sub:
            cwd = proj.dir / cwd_sub
            cwd.mkdir(parents=True, exist_ok=True)
        p = subprocess.run(cmd, cwd=str(cwd), env=e, input=stdin, capture_output=True, timeout=timeout)
        r.exit = p.returncode
        r.stdout = p.stdout.decode("utf-8", "replace")
        r.stderr = p.stderr.decode("utf-8", "replace")
        r.timeout = False
    except subprocess.TimeoutExpired as ex:
        r.exit = None
        r.stdout = (ex.stdout or b"").decode("utf-8", "replace")
        r.stderr = (ex.stderr or b"").decode("utf-8", "replace")
        r.timeout = True
    if mt0 is not None:
        proj.retime(mt0)
    r.cmd = cmd
    r.before = before
    r.after = proj.snapshot()
    r.outcomes = {}
    if junit.exists():
        try:
            for tc in ET.parse(junit).getroot().iter("testcase"):
                name = f"{tc.get('classname')}::{tc.get('name')}"
                kinds = [c.tag for c in tc if c.tag in ("failure", "error", "skipped")]
                # a test that passed its call but failed in teardown has both a pass and an error entry
                prev = r.outcomes.get(name)
                cur = "passed" if not kinds else "+".join(sorted(set(kinds)))
                r.outcomes[name] = cur if prev in (None, "passed") else prev if cur == "passed" else prev + "+" + cur
        except ET.ParseError:
            pass
    r.audit = []
    if audit.exists():
        for line in audit.read_text().splitlines():
            try:
                r.audit.append(json.loads(line))
            except ValueError:
                pass
    r.changed = sorted(k for k in set(before) | set(r.after) if before.get(k) != r.after.get(k))
    return r


def writes(r, phase=None):
    return [a for a in r.audit if a["kind"] in ("open_w", "rename", "remove", "truncate") and (phase is None or a["phase"] == phase)]
