"""pytest plugin of the harness (loaded with `-p ismon.verif_mon`, only when the guard
INLINE_SNAPSHOT_VERIF=1 is set).  It observes a real session from inside the process:

* sys.addaudithook: ordered log of file-system writes (open for writing, rename, remove,
  mkdir), pid / xdist-worker tagged, written with raw os.write to $VERIF_AUDIT_LOG;
* hook-wrapper around pytest_sessionfinish: an exception escaping the inline-snapshot
  plugin's session-end processing is logged (it is NOT an INTERNALERROR: pytest prints a
  raw traceback and exits 1);
* sys.monitoring failpoints ($VERIF_FAILPOINT): boundary sequence of session-end
  processing (PY_START of selected functions + audit events); at boundary k either raise
  or kill the process; $VERIF_FAILPOINT=record only logs the sequence;
* state-stack probe at unconfigure.
"""

from __future__ import annotations

import json
import os
import sys

import pytest

if os.environ.get("INLINE_SNAPSHOT_VERIF") != "1":  # pragma: no cover
    raise ImportError("verif_mon is only loaded under the INLINE_SNAPSHOT_VERIF guard")

_LOG = os.environ.get("VERIF_AUDIT_LOG")
_fd = os.open(_LOG, os.O_WRONLY | os.O_APPEND | os.O_CREAT, 0o644) if _LOG else None
_busy = False
_root = os.environ.get("VERIF_PROJECT_ROOT", os.getcwd())
_phase = ["startup"]
_seq = [0]


def _emit(kind, **kw):
    if _fd is None:
        return
    _seq[0] += 1
    rec = {"n": _seq[0], "pid": os.getpid(), "worker": os.environ.get("PYTEST_XDIST_WORKER", "main"), "phase": _phase[0], "kind": kind}
    rec.update(kw)
    try:
        os.write(_fd, (json.dumps(rec, default=str) + "\n").encode())
    except OSError:  # pragma: no cover
        pass


def _interesting(path):
    try:
        p = os.fspath(path)
    except TypeError:
        return None
    if isinstance(p, bytes):
        p = p.decode("utf-8", "replace")
    if not isinstance(p, str):
        return None
    ap = os.path.abspath(p)
    if not ap.startswith(_root):
        return None
    rel = os.path.relpath(ap, _root)
    if rel.startswith((".pytest_cache", "__pycache__")) or "__pycache__" in rel or rel.endswith((".pyc", "junit.xml", "audit.jsonl")):
        return None
    return rel


def _audit(event, args):
    global _busy
    if _busy:
        return
    if event not in ("open", "os.rename", "os.remove", "os.mkdir", "os.truncate", "shutil.rmtree"):
        return
    _busy = True
    try:
        if event == "open":
            path, mode, flags = args
            writing = (isinstance(mode, str) and any(c in mode for c in "wax+")) or (isinstance(flags, int) and flags & (os.O_WRONLY | os.O_RDWR | os.O_CREAT | os.O_TRUNC | os.O_APPEND))
            if not writing:
                return
            rel = _interesting(path)
            if rel is not None:
                _emit("open_w", path=rel, mode=str(mode))
                _boundary("open_w:" + rel)
        elif event == "os.rename":
            a, b = _interesting(args[0]), _interesting(args[1])
            if a is not None or b is not None:
                _emit("rename", src=a, dst=b)
                _boundary("rename:" + str(b))
        elif event in ("os.remove", "os.truncate"):
            rel = _interesting(args[0])
            if rel is not None:
                _emit("remove" if event == "os.remove" else "truncate", path=rel)
                _boundary("remove:" + rel)
        elif event == "os.mkdir":
            rel = _interesting(args[0])
            if rel is not None:
                _emit("mkdir", path=rel)
    finally:
        _busy = False


sys.addaudithook(_audit)

# ---------------------------------------------------------------------------------------
# failpoints

_FP = os.environ.get("VERIF_FAILPOINT")  # "record" | "<k>:raise" | "<k>:kill"
_fp_active = [False]
_fp_count = [0]


class InjectedFault(RuntimeError):
    pass


def _boundary(name):
    if not _FP or not _fp_active[0]:
        return
    _fp_count[0] += 1
    k = _fp_count[0]
    _emit("boundary", k=k, name=name)
    if _FP == "record":
        return
    want, kind = _FP.split(":")
    if k == int(want):
        _emit("inject", k=k, name=name, fault=kind)
        if kind == "kill":
            os._exit(77)
        raise InjectedFault(f"injected fault at boundary {k} ({name})")


def _install_monitoring():
    if not _FP:
        return
    import ast
    import pathlib
    import subprocess
    import tokenize

    from inline_snapshot import _change
    from inline_snapshot import _external
    from inline_snapshot import _find_external
    from inline_snapshot import _format
    from inline_snapshot import _rewrite_code
    from inline_snapshot import _source_file

    targets = {
        _format.format_code: "format_code",
        _format.file_mode_for_path: "file_mode_for_path",
        _rewrite_code.SourceFile.new_code: "SourceFile.new_code",
        _rewrite_code.SourceFile.rewrite: "SourceFile.rewrite",
        _rewrite_code.SourceFile._check: "SourceFile._check",
        _rewrite_code.SourceFile.__init__: "SourceFile.__init__",
        _rewrite_code.SourceFile.diff: "SourceFile.diff",
        _rewrite_code.SourceFile.virtual_write: "SourceFile.virtual_write",
        _rewrite_code.ChangeRecorder.fix_all: "ChangeRecorder.fix_all",
        _change.apply_all: "apply_all",
        _change.generic_sequence_update: "generic_sequence_update",
        _find_external.ensure_import: "ensure_import",
        _find_external.unused_externals: "unused_externals",
        _find_external.used_externals_in: "used_externals_in",
        _external.DiscStorage.persist: "DiscStorage.persist",
        _external.DiscStorage._lookup_path: "DiscStorage._lookup_path",
        _external.DiscStorage.remove: "DiscStorage.remove",
        _external.DiscStorage.list: "DiscStorage.list",
        _source_file.SourceFile._token_to_code: "_token_to_code",
        pathlib.Path.read_text: "Path.read_text",
        pathlib.Path.rename: "Path.rename",
        pathlib.Path.unlink: "Path.unlink",
        tokenize.generate_tokens: "generate_tokens",
        ast.parse: "ast.parse",
        subprocess.run: "subprocess.run",
    }
    mon = sys.monitoring
    tool = 4
    try:
        mon.use_tool_id(tool, "verif_mon")
    except ValueError:
        return
    codes = {}
    for fn, name in targets.items():
        fn = getattr(fn, "__func__", fn)
        code = getattr(fn, "__code__", None)
        if code is not None:
            codes[code] = name
            mon.set_local_events(tool, code, mon.events.PY_START)

    def on_start(code, offset):
        name = codes.get(code)
        if name is not None:
            _boundary(name)

    mon.register_callback(tool, mon.events.PY_START, on_start)


# ---------------------------------------------------------------------------------------
# formatter faults: black.format_str is mypyc-compiled (no code object) -> wrapped as attribute

_BF = os.environ.get("VERIF_BLACK_FAULT")  # "<kind>[:<call index>]" kind in raise|garbage|empty


def _install_black_fault():
    if not _BF:
        return
    import black

    kind, _, idx = _BF.partition(":")
    idx = int(idx) if idx else None
    real = black.format_str
    calls = [0]

    def faulty(src, *, mode):
        if not _fp_active[0] and _phase[0] != "sessionfinish":
            return real(src, mode=mode)
        calls[0] += 1
        if idx is not None and calls[0] != idx:
            return real(src, mode=mode)
        _emit("black_fault", kind=kind, call=calls[0])
        if kind == "raise":
            raise RuntimeError("injected black failure")
        if kind == "garbage":
            return "GARBAGE((( not python"
        if kind == "empty":
            return ""
        return real(src, mode=mode)

    black.format_str = faulty


# ---------------------------------------------------------------------------------------
# pytest hooks


def pytest_configure(config):
    _emit("configure", args=[str(a) for a in config.invocation_params.args])
    try:
        from inline_snapshot import _global_state

        config._verif_stack_depth = len(_global_state._latest_global_states)
    except Exception:  # pragma: no cover
        config._verif_stack_depth = None
    _install_monitoring()
    _install_black_fault()


def pytest_collection_finish(session):
    _phase[0] = "tests"
    _emit("collection_finish", items=len(session.items))


@pytest.hookimpl(hookwrapper=True, tryfirst=True)
def pytest_sessionfinish(session, exitstatus):
    _phase[0] = "sessionfinish"
    _fp_active[0] = True
    try:
        from inline_snapshot._global_state import state

        st = state()
        _emit("sessionfinish_begin", exitstatus=int(exitstatus), active=bool(st.active), flags=sorted(st.flags), update_flags=sorted(st.update_flags.to_set()), snapshots=len(st.snapshots))
    except Exception as e:  # pragma: no cover
        _emit("sessionfinish_begin", error=repr(e))
    outcome = yield
    _fp_active[0] = False
    exc = outcome.excinfo
    if exc is not None:
        import traceback

        tb = traceback.extract_tb(exc[2])
        where = [f for f in tb if "inline_snapshot" in f.filename]
        loc = f"{os.path.basename(where[-1].filename)}:{where[-1].name}" if where else "?"
        _emit("sessionfinish_exception", type=exc[0].__name__, message=str(exc[1])[:300], where=loc, injected=isinstance(exc[1], InjectedFault))
    else:
        _emit("sessionfinish_ok")
    _phase[0] = "after"


def pytest_unconfigure(config):
    try:
        from inline_snapshot import _global_state

        _emit("unconfigure", stack_depth=len(_global_state._latest_global_states), stack_depth_at_configure=getattr(config, "_verif_stack_depth", None))
    except Exception as e:  # pragma: no cover
        _emit("unconfigure", error=repr(e))
