"""Prelude copied into every generated project as vp.py: the user-side classes and the
recording helper.  Nothing in here imports inline_snapshot."""

import copy
from collections import defaultdict
from collections import namedtuple
from dataclasses import dataclass
from dataclasses import field
from enum import Enum
from enum import Flag
from typing import Any
from typing import NamedTuple

import attrs
import pydantic


class Color(Enum):
    RED = 1
    GREEN = 2
    BLUE = "b"


class Perm(Flag):
    R = 1
    W = 2
    X = 4


@dataclass
class DC:
    a: Any
    b: Any = 5
    c: Any = field(default_factory=list)


@dataclass
class DC2:
    """same fields and defaults as DC, another class"""

    a: Any
    b: Any = 5
    c: Any = field(default_factory=list)


@dataclass(frozen=True)
class FDC:
    x: Any
    y: Any = None


@attrs.define
class AT:
    a: Any
    b: Any = 7
    c: Any = attrs.Factory(list)


class PM(pydantic.BaseModel):
    a: Any
    b: Any = "x"
    c: Any = pydantic.Field(default_factory=list)


@dataclass
class DI:
    """a field that is no constructor argument"""

    w: Any
    h: Any = 2
    area: Any = field(init=False, default=None)

    def __post_init__(self):
        self.area = (self.w, self.h)


@attrs.define
class AP:
    """a private attribute (constructor argument `token`) and a field that is no constructor argument"""

    name: Any
    _token: Any = "t"
    calls: Any = attrs.field(init=False, default=0)


NT = namedtuple("NT", "a b c", defaults=[3])


class NT2(NamedTuple):
    x: Any
    y: Any = 0


class Weird:
    """repr is not Python code -> recorded through HasRepr."""

    def __init__(self, n):
        self.n = n

    def __repr__(self):
        # four ways of not being an expression: no code at all, code followed by a comment,
        # a statement, several lines
        return [f"<Weird {self.n}>", f"Weird #{self.n}", f"weird={self.n}", f"Weird\n{self.n}"][self.n % 4]

    def __eq__(self, other):
        if type(other) is Weird:
            return other.n == self.n
        return NotImplemented


class WeirdBox:
    """repr is not Python code and embeds the repr() of a member (whose code representation differs from its plain repr)"""

    def __init__(self, item):
        self.item = item

    def __repr__(self):
        return "<WeirdBox " + repr(self.item) + ">"

    def __eq__(self, other):
        if type(other) is WeirdBox:
            return other.item == self.item
        return NotImplemented


class Box:
    """hashable but mutable user object with a code-like repr"""

    def __init__(self, name, items=None):
        self.name = name
        self.items = items if items is not None else []

    def __repr__(self):
        return f"Box({self.name!r}, {self.items!r})"

    def __eq__(self, other):
        if type(other) is Box:
            return (self.name, self.items) == (other.name, other.items)
        return NotImplemented

    def __hash__(self):
        return 7


class _AccessOnly:
    def __repr__(self):
        return "ACCESS_ONLY"


# observation marker: `snapshot(...)[key]` is evaluated but the sub-snapshot is not compared
ACCESS_ONLY = _AccessOnly()


def appended(obj, name, item):
    """obj after an in-place change of a list-valued field that was left to its default factory"""
    getattr(obj, name).append(item)
    return obj


LOG = []


def rec(site, fn):
    """Run one comparison, log (site, kind, payload); never aborts the test."""
    try:
        r = fn()
    except BaseException as e:  # noqa
        LOG.append((site, "exc", type(e).__name__, str(e)[:200]))
        return None
    LOG.append((site, "ok", type(r).__name__, r if isinstance(r, (bool, int, str, type(None))) else repr(r)))
    return r


def note(site, what, value):
    try:
        value = copy.deepcopy(value)
    except Exception:
        value = repr(value)
    LOG.append((site, what, value))
