"""Shard worker: python -m ismon.worker Cxx --shard i --nshards n --seed s --tier t --out f"""

from __future__ import annotations

import argparse
import faulthandler
import importlib
import json
import os
import sys
import traceback

from . import common


def main():
    ap = argparse.ArgumentParser()
    ap.add_argument("prop")
    ap.add_argument("--shard", type=int, default=0)
    ap.add_argument("--nshards", type=int, default=1)
    ap.add_argument("--seed", type=int, default=0)
    ap.add_argument("--tier", default="quick")
    ap.add_argument("--out", required=True)
    ap.add_argument("--replay")
    args = ap.parse_args()
    faulthandler.enable()
    if str(common.DEPS) not in sys.path:
        sys.path.append(str(common.DEPS))
    mod = importlib.import_module(f"ismon.props.{args.prop.lower()}")
    try:
        res = mod.run_shard(args)
    except BaseException:
        res = {"inconclusive": [f"worker crashed: {traceback.format_exc()[-1500:]}"]}
    tmp = args.out + ".tmp"
    with open(tmp, "w") as f:
        json.dump(common.jsonable(res), f)
    os.replace(tmp, args.out)


if __name__ == "__main__":
    main()
