"""Minimal stand-in for the dirty-equals package (not installed in this sandbox).
inline-snapshot only tests `isinstance(v, DirtyEquals)` / `issubclass(v, DirtyEquals)`;
equality semantics follow dirty-equals: `IsInt() == 5`, and the bare class `IsInt == 5`."""


class _Meta(type):
    def __eq__(cls, other):
        if isinstance(other, type):
            return cls is other
        return cls() == other

    __hash__ = type.__hash__


class DirtyEquals(metaclass=_Meta):
    def __init__(self, *args, **kwargs):
        self._args = args
        self._kwargs = kwargs

    def equals(self, other):  # pragma: no cover
        raise NotImplementedError

    def __eq__(self, other):
        try:
            return bool(self.equals(other))
        except Exception:
            return False

    def __ne__(self, other):
        return not self == other

    __hash__ = None

    def __repr__(self):
        return f"{type(self).__name__}()"


class IsInt(DirtyEquals):
    def equals(self, other):
        return isinstance(other, int) and not isinstance(other, bool)


class IsStr(DirtyEquals):
    def equals(self, other):
        return isinstance(other, str)


class IsList(DirtyEquals):
    def equals(self, other):
        return isinstance(other, list)
