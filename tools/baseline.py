#!/usr/bin/env python3
"""Run the repository's pinned baseline suite (guard OFF) and compare with
/root/.vp/BASELINE.json's stable_pass list.  exit 0 iff every stable test passed."""
import json, os, subprocess, sys, tempfile, xml.etree.ElementTree as ET

base = json.load(open("/root/.vp/BASELINE.json"))
fd, junit = tempfile.mkstemp(suffix=".xml")
os.close(fd)
env = {k: v for k, v in os.environ.items() if k != "INLINE_SNAPSHOT_VERIF"}
cmd = base["cmd"].replace("<file>", junit)
p = subprocess.run(cmd, shell=True, env=env, capture_output=True, text=True)
passed = set()
for tc in ET.parse(junit).getroot().iter("testcase"):
    if not any(c.tag in ("failure", "error", "skipped") for c in tc):
        passed.add(f"{tc.get('classname')}::{tc.get('name')}")
os.unlink(junit)
want = set(base["stable_pass"])
missing = sorted(want - passed)
print(f"stable_pass={len(want)} passed_now={len(passed)} missing={len(missing)}")
for m in missing[:20]:
    print("  NOT PASSING:", m)
sys.exit(1 if missing else 0)
