#!/usr/bin/env python3
"""Regenerates /verif/MANIFEST.json from the table below and validates it against the schema.
Properties whose module does not exist yet are listed under not_applicable ("not built yet")."""
import json
import subprocess
import sys
from pathlib import Path

VERIF = Path(__file__).resolve().parent.parent
ALL = [f"C{n:02d}" for n in range(1, 21)]

CHECKS = {
    "C01": dict(
        level="exploration",
        text="Thousands of generated empty-snapshot sites (value universe x 5 operations x placements) are created by the real code and the rewritten module is re-executed with inline-snapshot inactive; every comparison must be True; a sample of real `pytest --inline-snapshot=create` sessions followed by `--inline-snapshot=disable` must be green. Random exploration of an unbounded input space: evidence counts sites, distinct (op, placement, value-shape) signatures and re-execution events.",
        note="Trusts Python's own evaluation of the rewritten module as the oracle and the in-process driver's equivalence to Example.run_inline (C19 checks drivers against real sessions). nan/inf and HasRepr-in-set excluded.",
        technique="runtime monitoring: generated workloads + boundary oracle (plain re-execution of rewritten module, per-comparison event log)",
        ref="DESIGN.md section 4 C01",
    ),
}

EXTRA = " Real pytest sessions over further layout, environment and invocation dimensions (import-block layouts, several files, locales, other start directories, monorepo configuration, byte-code caches, ways a session ends, collection-time snapshots) were added after the seeded rounds: DESIGN.md section 4.1 lists them per property; the evidence file counts what each run observed of them."

NOT_BUILT_REASON = "check not built yet in this round (work in progress; see DESIGN.md section 4 for the planned monitor)"


def main():
    checks = []
    na = []
    for pid in ALL:
        c = CHECKS.get(pid)
        if c is None or not (VERIF / "ismon" / "props" / f"{pid.lower()}.py").exists():
            na.append({"property_id": pid, "reason": NOT_BUILT_REASON})
            continue
        checks.append(
            {
                "property_id": pid,
                "quick_cmd": f"/venv/bin/python check.py {pid} --tier quick",
                "thorough_cmd": f"/venv/bin/python check.py {pid} --tier thorough",
                "evidence_file": f"/verif/evidence/{pid}.json",
                "replay_cmd_template": f"/venv/bin/python check.py {pid} --replay {{path}}",
                "engine": "ismon",
                "level_claimed": {"category": c["level"], "text": c["text"] + EXTRA, "design_ref": c["ref"]},
                "level_note": c["note"],
                "technique": c["technique"],
            }
        )
    manifest = {
        "version": 1,
        "setup_cmd": "/venv/bin/python -m pip install --quiet --no-index --no-deps --find-links /opt/veriftools/wheels --target /verif/.deps icontract && /venv/bin/python -c \"import sys; sys.path.append('/verif/.deps'); import icontract, black, pytest, inline_snapshot\"",
        "hooks": {
            "guard": "INLINE_SNAPSHOT_VERIF",
            "enable": "No source hooks: the harness observes from outside (pytest plugin verif_mon loaded with -p, sys.addaudithook, sys.monitoring, attribute wrappers, icontract decorators applied by the harness). INLINE_SNAPSHOT_VERIF=1 is set by the harness for its own children only; /repo/src is imported from the working tree through the editable install / PYTHONPATH, so every check runs the current sources.",
            "baseline_off_cmd": "cd /repo && env -u INLINE_SNAPSHOT_VERIF /venv/bin/python -m pytest -ra -q -p no:cacheprovider --timeout=900 --continue-on-collection-errors",
            "source_commits": [],
            "add_only": True,
        },
        "engines": [
            {
                "name": "ismon",
                "path": "/verif/ismon",
                "serves_properties": [c["property_id"] for c in checks],
                "kind_free_text": "runtime monitoring harness: seeded workload generators, in-process and real-pytest-session drivers, boundary recorders / audit hooks / failpoints, reference-model oracles, known-finding classifiers",
            }
        ],
        "checks": checks,
        "not_applicable": na,
        "notes": "Exit status: 0 held, 1 violation (VIOLATION line), 2 inconclusive (monitor not reached / watchdog). Known findings: /verif/known_findings.json. Repairs of genuine defects are 'fix:' commits in /repo (listed there as fixed:).",
    }
    (VERIF / "MANIFEST.json").write_text(json.dumps(manifest, indent=1) + "\n")
    code = (
        "import json,jsonschema;"
        "jsonschema.validate(json.load(open('/verif/MANIFEST.json')), json.load(open('/root/.vp/MANIFEST.schema.json')));"
        "print('MANIFEST valid:', len(json.load(open('/verif/MANIFEST.json'))['checks']), 'checks')"
    )
    subprocess.run(["python3-vt", "-c", code], check=True)


if __name__ == "__main__":
    sys.path.insert(0, str(VERIF / "tools"))
    try:
        import manifest_table

        CHECKS.update(manifest_table.CHECKS)
    except ImportError:
        pass
    main()
