"""Per-property manifest entries (merged into tools/gen_manifest.py)."""

T_INPROC = "runtime monitoring: generated workloads on the real code (in-process driver) + boundary oracle"

CHECKS = {
    "C12": dict(
        level="exploration",
        text="Every string up to length 2 (quick) / 3 (thorough) over a 16-symbol adversarial alphabet is enumerated completely and combined with 14 generation positions and black / no formatter; random long str/bytes and format-command configurations are sampled. The literal written by the real code is read back by re-executing the rewritten module with inline-snapshot inactive; icontract post-conditions on triple_quote/value_to_token localise failures. The enumerated sub-space is complete (reported under enumerated_subspace), the property as a whole (all Unicode strings) is explored, not exhausted.",
        note="Trusts Python's parser/evaluator as the read-back oracle; lone surrogates excluded (not representable in a UTF-8 source file); format-command runs are sampled.",
        technique="runtime monitoring: exhaustive-short + random string workload, read-back oracle by plain re-execution, icontract post-conditions on triple_quote/value_to_token",
        ref="DESIGN.md section 4 C12",
    ),
    "C02": dict(
        level="exploration",
        text="Generated (previous text, observed value) pairs: the previous text is a hostile-layout rendering of a value tree (hand-written sub-expressions, comments, redundant parentheses, positional/keyword constructor arguments), the observed value comes from chained edit scripts or is unrelated; one run of the real code approving create+fix, then the rewritten module is re-executed with inline-snapshot inactive and every comparison (also those after an earlier failing one) must hold. Random exploration; evidence counts sites, edit kinds, change classes emitted.",
        note="Exemptions by construction (one value per == site, no user-controlled parts - C10). Internal errors are counted as crashed and left to C18. In-process driver.",
        technique=T_INPROC + " (plain re-execution after a create+fix run)",
        ref="DESIGN.md section 4 C02",
    ),
    "C05": dict(
        level="exploration",
        text="Recording-style programs (previous value or none x operation x observation sequence) are run by the real code once per approved subset F; per site the change flags read at quiescence and the value the rewritten argument evaluates to are compared with an independent executable model of the documented category algebra (ismon/models.py): reported create/fix/trim, fix <=> some comparison fails, value after F, update-only never changes the value. Random exploration over sites x all 16 subsets (thorough) / 6 subsets (quick).",
        note="Model written from docs/categories.md; same value = Python ==, `in` lists compared without order. One recorded finding (F13, positional constructor arguments) is classified by a counterfactual re-run.",
        technique="runtime monitoring: per-site change-flag probe + evaluated arguments vs executable reference model of the category algebra",
        ref="DESIGN.md section 4 C05",
    ),
    "C06": dict(
        level="exploration",
        text="The same recording-style file is executed by the real code in an active session without category flags and with inline-snapshot inactive; the two comparison logs (result type, value, exception type) are compared position by position over thousands of comparisons (equal / near / unrelated operands, five operations, Is() and inner snapshots nested in the stored value); all 20 ordered pairs of two different operations on one snapshot must raise TypeError; inactive snapshot(v) must be v itself; the file must stay byte-identical.",
        note="Scope restrictions of the statement are enforced by construction and by skipping (and counting) comparisons that raise on the plain value. Real-session equivalence of pass/fail is sampled by C07's sessions.",
        technique="runtime monitoring: differential comparison-event log (active session vs snapshot:=identity)",
        ref="DESIGN.md section 4 C06",
    ),
    "C08": dict(
        level="exploration",
        text="Histories of 2-4 identical runs of generated deterministic programs with the same approved set (all four categories, or a random subset): file bytes after run 1 are compared with those after every later run; after an all-categories run the second run must report no create/fix/trim at any site, log only True comparisons and leave the missing/incorrect counters at zero.",
        note="In-process histories (fresh directory per run, shared external storage). Programs come from the C02 and C05 generators.",
        technique="runtime monitoring: history workload with file-hash + per-site change-flag monitors (idempotence oracle)",
        ref="DESIGN.md section 4 C08",
    ),
    "C09": dict(
        level="exploration",
        text="For generated recording-style programs with k>=2 pending categories (taken from a no-flag run of the real code) every one of the k! orders of successive single-category runs is executed and its final module is compared (ast.dump) with the result of the single combined run. Exploration over programs; for each explored program the set of orders is enumerated completely (k<=4, <=24 orders).",
        note="In-process histories. The plugin's cumulative virtual application in review mode is exercised by C04's review sessions.",
        technique="runtime monitoring: history workload (all permutations of single-category runs) with AST-equality oracle on final files",
        ref="DESIGN.md section 4 C09",
    ),
    "C11": dict(
        level="exploration",
        text="(a) icontract post-conditions on the real align()/add_x() (script consumes both sequences, m pairs only equal elements, number of matches = LCS length from an independent DP, equal common prefix matched, d/i conserved by add_x) evaluated on ALL pairs of sequences over 3 letters up to length 4 (quick) / 5 (thorough) and on random long pairs; (b) generated displays whose leaves are hand-written expressions are fixed by the real code with only `fix` approved and the source text of every element the statement guarantees (equal entry under a surviving key/keyword; equal common prefix and suffix, computed from evaluated values) is compared before/after at every nesting depth.",
        note="Only the guaranteed set of the statement is asserted (middle-of-sequence matches and positional arguments are not). The enumerated alignment sub-space is complete; the file-level part is random exploration.",
        technique="runtime monitoring: icontract post-conditions on align/add_x + source-segment preservation oracle on fix-only runs",
        ref="DESIGN.md section 4 C11",
    ),
    "C10": dict(
        level="exploration",
        text="Generated displays mix managed leaves with Is(...), f-strings, dirty-equals expressions (stub), star-expression containers and nested snapshot() calls at depth <= 4; observations keep/change/remove elements and insert managed ones around them; the real code runs once per approved subset. Monitors: every unmanaged source segment located with ast before and after (nothing altered or invented; everything the statement guarantees still present verbatim: consistent elements, elements under surviving keys/keywords, frozen star containers with nested snapshot arguments masked, nested snapshot calls), and plain re-execution for the managed siblings of consistent sites after create+fix.",
        note="dirty-equals is a 30-line stub (absent from the sandbox). Expectations are limited to what the statement guarantees: an inconsistent or removed unmanaged element of a sequence may disappear with its element or stay and keep the site failing.",
        technique="runtime monitoring: ast-located source-segment preservation monitor + plain re-execution oracle over generated mixed managed/unmanaged displays",
        ref="DESIGN.md section 4 C10",
    ),
    "C14": dict(
        level="exploration",
        text="Two-module programs with up to 40 call sites in eight placement forms (incl. several per line and per frame, closures created twice, comprehensions, module level, helper arguments, methods) are driven by one random global interleaving of 1-6 evaluations per site; observations are tagged with the site id so that any leak between sites shows up in the written value. Monitors: size of the session's snapshot table vs number of textual sites, and each rewritten argument (plain-evaluated) vs the model aggregate of exactly its own observations; ten changed-argument programs x three flag sets must raise UsageError at the second evaluation and must not crash session end.",
        note="In-process driver keeps code objects alive like pytest keeps imported modules.",
        technique="runtime monitoring: self-identifying observations + snapshot-table probe + per-site aggregate oracle under random interleavings",
        ref="DESIGN.md section 4 C14",
    ),
    "C17": dict(
        level="exploration",
        text="Generated test bodies compare mutable objects (list/dict/set/dataclass/attrs/nested) and mutate them after the comparison, between repeated comparisons, through an alias, inside nested elements or in a helper; the body logs copy.deepcopy(value) right before each comparison. After a create / fix+trim run of the real code the rewritten argument is plain-evaluated and compared with the model aggregate of those logged copies. Classes whose deep copy is unequal or never equal must produce UsageError in every operation, must not crash session end and must not be written.",
        note="The aliasing-free model is the test body's own deep copy at comparison time.",
        technique="runtime monitoring: in-body deep-copy event log vs evaluated written value under mutation schedules",
        ref="DESIGN.md section 4 C17",
    ),
    "C16": dict(
        level="exploration",
        text="The same generated modules (values built from sets/frozensets/dicts with mixed, non-orderable and partially ordered elements, in two construction variants) are executed by the real code in one fresh interpreter per configuration - PYTHONHASHSEED x {black, black missing} plus format-command black/cat on a subset - and the written snapshot arguments are compared: byte-identical across hash seeds and construction orders, identical ast.dump across formatter configurations; every configuration's result is also re-executed plainly (value correct).",
        note="Separate interpreters give genuinely different hash seeds; class/Enum members have id-based hashes, so set iteration order varies even within one seed.",
        technique="runtime monitoring: differential execution across interpreter configurations (hash seed x formatter) with text/AST equality oracle",
        ref="DESIGN.md section 4 C16",
    ),
    "C03": dict(
        level="exploration",
        text="Generated files with hostile layouts (non-ASCII text and strings containing 'snapshot(' left of the call, several sites per line, nested calls, multi-line arguments with comments, tabs, class methods, long lines; LF/CRLF/CR, BOM, no final newline, form feed; black-clean, format-command) are rewritten by the real code under random approved subsets. A boundary oracle independent of asttokens locates outermost snapshot(...) spans with ast byte offsets in old and new text: bytes outside the spans and spans of sites without an approved pending change must be identical (newline style and BOM included) when no whole-file formatting applies, the snapshot-argument-masked ast.dump must be identical when it does; the result must always parse.",
        note="UTF-8 files with one consistent newline style. Whether whole-file formatting applies is decided by the harness (format-command or black(original)==original). Plugin-side import insertion is covered by the real-session checks.",
        technique="runtime monitoring: byte/AST boundary oracle on rewritten files over hostile-layout workloads",
        ref="DESIGN.md section 4 C03",
    ),
    "C20": dict(
        level="exploration",
        text="Generated projects with [tool.black] options (line length 20-120, magic trailing comma, string normalisation, preview; also none) and test files made clean by the harness with exactly that mode, or deliberately unclean, are rewritten by the real code (changes that straddle the line limit, inserted elements, multi-line strings). The harness rebuilds black.Mode independently and checks black(new)==new for files that were clean; a recorder around black.format_str tells black's own instability from a missing or wrongly configured final whole-file format and checks that every fragment was formatted with the project's mode; unclean files go through C03's byte oracle.",
        note="cwd = project root, as in a pytest session. black 26.5.1 as installed.",
        technique="runtime monitoring: formatter fixed-point oracle with independently built mode + recorder on black.format_str",
        ref="DESIGN.md section 4 C20",
    ),
    "C18": dict(
        level="exploration",
        text="Files composed from 50 parameterised bad-program templates within the documented usage (failing and raising comparisons, exceptions before/after comparisons, nested snapshots with replaced/deleted/only-aligned/empty parents, operator misuse, changing arguments, unequal copies, star-expressions, f-strings, Is) mixed with sites from the C02/C05/C10 generators, asserting style so that tests abort midway, run by the real code under 4 (quick) / all 16 (thorough) approved subsets. Monitors: exception capture around change collection and around apply_all/fix_all, an independent overlap check of every recorded replacement set, and compile() of every rewritten file.",
        note="Every other in-process check also counts internal errors (crashed counter, inconclusive above 5%); the plugin-level detector (hook-wrapper around pytest_sessionfinish) runs in the real-session checks.",
        technique="runtime monitoring: exception/overlap monitors at the session-end boundary over adversarial test programs",
        ref="DESIGN.md section 4 C18",
    ),
}
