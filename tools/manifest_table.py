"""Per-property manifest entries (merged into tools/gen_manifest.py)."""

T_INPROC = "runtime monitoring: generated workloads on the real code (in-process driver) + boundary oracle"

CHECKS = {
    "C12": dict(
        level="exploration",
        text="Every string up to length 2 (quick) / 3 (thorough) over a 16-symbol adversarial alphabet is enumerated completely and combined with 14 generation positions and black / no formatter; random long str/bytes and format-command configurations are sampled. The literal written by the real code is read back by re-executing the rewritten module with inline-snapshot inactive; icontract post-conditions on triple_quote/value_to_token localise failures. The enumerated sub-space is complete (reported under enumerated_subspace), the property as a whole (all Unicode strings) is explored, not exhausted.",
        note="Trusts Python's parser/evaluator as the read-back oracle; lone surrogates excluded (not representable in a UTF-8 source file); format-command runs are sampled.",
        technique="runtime monitoring: exhaustive-short + random string workload, read-back oracle by plain re-execution, icontract post-conditions on triple_quote/value_to_token",
        ref="DESIGN.md section 4 C12",
    ),
}
