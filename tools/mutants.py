#!/usr/bin/env python3
"""Monitor validation: run checks against deliberately broken copies of the repository.

  tools/mutants.py list
  tools/mutants.py run <mutant-id|all> [--props C01,C02] [--tier quick] [--baseline]

Each mutant is (id, file under src/inline_snapshot, old text, new text, properties expected
to catch it).  The copy lives under $VERIF_TMP (default /dev/shm) and is removed afterwards;
/repo is never touched.  --baseline additionally runs the repository's own suite against
the mutant (PYTHONPATH override) to confirm that the existing tests do not notice it.
"""
import argparse
import os
import shutil
import subprocess
import sys
import tempfile
from pathlib import Path

VERIF = Path(__file__).resolve().parent.parent

M = []


def m(id, file, old, new, props, note="", more=()):
    """more: further (file, old, new) edits for multi-site mutants"""
    M.append(dict(id=id, file=file, old=old, new=new, props=props, note=note, edits=[(file, old, new), *more]))


# ---- C01
m("tuple1-repr", "_adapter/sequence_adapter.py", "if len(value) == 1 and cls.trailing_comma:", "if False:", ["C01"], "1-tuple rendered as (x)")
m("hasrepr-off", "_code_repr.py", "        return real_repr(HasRepr(type(obj), result))", "        return result", ["C01"], "unparsable repr written verbatim")
# ---- C12
m("tq-backslash", "_utils.py", 'if c == "\\\\" or not c.isprintable():', "if not c.isprintable():", ["C12"], "backslash not escaped in triple-quoted strings (self-check assert fires -> crash)")
m("tq-backslash-noassert", "_utils.py", 'if c == "\\\\" or not c.isprintable():', "if not c.isprintable():", ["C12"], "same, with the self-check removed (two cooperating sites)", more=[("_utils.py", "                assert ast.literal_eval(triple_quoted_string) == s\n", "")])
m("str-prefix-strip", "_source_file.py", "                return code[len(prefix) :]", r"                return code[len(prefix) :].replace('\\x00', '')", ["C12"], "NUL escapes dropped from lone literals")
m("bytes-as-str", "_utils.py", "            if isinstance(s, str) and (", "            if isinstance(s, (str, bytes)) and len(s) > 3 and (", ["C12"], "long multi-line bytes go through triple_quote")
m("set-sort-dedupe", "_code_repr.py", "    set_values = list(map(repr, set_values))", "    set_values = list(dict.fromkeys(r[:3] for r in map(repr, set_values)))", ["C01", "C16"], "set members truncated")
m("dict-create-key", "_snapshot/dict_value.py", 'f"{self._file._value_to_code(k)}: {v._new_code()}"', 'f"{self._file._value_to_code(str(k) if isinstance(k, int) else k)}: {v._new_code()}"', ["C01"], "int keys of created sub-snapshots become str")
m("min-create-first", "_snapshot/min_max_value.py", "        elif not self.cmp(self._new_value, other):\n            self._new_value = clone(other)", "        elif False:\n            pass", ["C01", "C05"], "bound keeps the first value instead of the extreme")
m("collection-dedupe-type", "_snapshot/collection_value.py", "            if item not in self._new_value:", "            if repr(item) not in map(repr, self._new_value) and len(self._new_value) < 3:", ["C01", "C05"], "`in` list drops the 4th member")


m("tq-final-quote-twice", "_utils.py", " and string[-1] != extra:", ":", ["C12"], "revert of the double-escape fix (needs both triple quotes + final quote)")
# ---- C02
m("return-old-under-fix", "_snapshot/generic_value.py", "        if flags.fix or flags.create or flags.update or self._old_value is undefined:", "        if self._old_value is undefined:", ["C02"], "comparison answers the old result under create/fix: test aborts at first failing snapshot (asserting style)")
m("addx-off", "_align.py", '            result += "x" * g[1]\n            i += 1', '            result += g[0] * g[1]', [], "never produce x (replace): equivalent w.r.t. the guaranteed set (informational)")
m("dict-insert-pos", "_adapter/dict_adapter.py", "                insert_pos += 1", "                insert_pos += 2", ["C02"], "off-by-one insert position for dict entries")
m("tuple1-comma", "_change.py", '        if elements == 1 and isinstance(parent, ast.Tuple):', '        if False:', ["C02"], "1-tuple loses its trailing comma after deletion")
m("delete-wrong-kw", "_adapter/generic_call_adapter.py", "                    kw.value,\n                    self.argument(old_value, kw.arg),", "                    old_node.keywords[0].value,\n                    self.argument(old_value, kw.arg),", ["C02"], "Delete of the wrong keyword")
m("parens-limit", "_change.py", "            and prev_token.index > left_brace.index\n            and next_token.index < right_brace.index", "", [], "(only reachable with a custom adapter that keeps a sole positional argument; informational) paren extension may swallow the call's own parentheses f((x))")
m("eq-merge-keeps-old-leaf", "_adapter/value_adapter.py", "        yield Replace(\n            node=old_node,", "        if isinstance(new_value, bool): return new_value\n        yield Replace(\n            node=old_node,", ["C02"], "bool leaves are never rewritten")


# ---- C05
m("minmax-swap", "_snapshot/min_max_value.py", '            flag = "fix"\n        elif not cmp(self._new_value, self._old_value):\n            flag = "trim"', '            flag = "trim"\n        elif not cmp(self._new_value, self._old_value):\n            flag = "fix"', ["C05"], "fix/trim swapped for bounds")
m("collection-trim-pos", "_snapshot/collection_value.py", "            if old_value not in self._new_value:", "            if old_value not in self._new_value[:1]:", ["C05"], "trim keeps only members equal to the first tested value")
m("dict-no-create", "_snapshot/dict_value.py", '                "create",\n                self._file,', '                "fix",\n                self._file,', ["C05"], "new sub-snapshot keys are flagged fix instead of create")
m("update-rewrites-value", "_snapshot/min_max_value.py", '            flag = "update"', '            flag = "update"\n            new_token = value_to_token(self._old_value + 1 if isinstance(self._old_value, int) else self._old_value)', ["C05"], "an update of a bound changes its value")
m("eq-fix-as-update", "_adapter/value_adapter.py", '                flag = "fix"', '                flag = "fix" if not isinstance(new_value, bool) else "update"', ["C05"], "bool leaf changes are flagged update")
m("create-alters-existing", "_snapshot/dict_value.py", "                yield from self._new_value[key]._get_changes()", "                yield from (c if c.flag != 'fix' else type(c)(**{**c.__dict__, 'flag': 'create'}) for c in self._new_value[key]._get_changes())", ["C05"], "fixes inside sub-snapshots are labelled create")


# ---- C06
m("return-new-always", "_snapshot/generic_value.py", "            return new_result\n        return result", "            return new_result\n        return new_result", ["C06"], "_return answers the new result without flags")
m("min-cmp-inverted", "_snapshot/min_max_value.py", "    def cmp(a, b):\n        return a <= b", "    def cmp(a, b):\n        return a < b", ["C06", "C05"], "x >= snapshot(v) is strict")
m("unmanaged-eq-wrapper", "_unmanaged.py", "        return self.value == other", "        return self.value is other or (self.value == other and not isinstance(other, (list, dict)))", ["C06"], "Unmanaged equality wrong for containers")
m("typeerror-off", "_snapshot/generic_value.py", '    def __contains__(self, _other):\n        __tracebackhide__ = True\n        self._type_error("in")', '    def __contains__(self, _other):\n        return False', ["C06"], "`in` on a snapshot used with another op answers False")
m("collection-contains-eq", "_snapshot/collection_value.py", "            return self._return(item in self._old_value)", "            return self._return(any(item is o or (type(item) is type(o) and item == o) for o in self._old_value))", ["C06"], "`in` is type-strict (True in [1] differs)")
m("dictvalue-child-shared", "_snapshot/dict_value.py", "        if index not in self._new_value:", "        if index not in self._new_value or (isinstance(index, str) and index.endswith(':1')):", ["C14"], "some keys re-create the child sub-snapshot at each access (aggregation lost)")


# ---- C08
m("token-quote-sensitive", "_utils.py", """            ) and self.string.replace("'", '"') == other.string.replace("'", '"')""", "            ) and self.string == other.string", ["C08"], "string tokens compared quote-sensitively: perpetual update")
m("no-skip-trailing-comma", "_utils.py", "    return skip_complex_parens(skip_trailing_comma(normalize_strings(token_sequence)))", "    return skip_complex_parens(normalize_strings(token_sequence))", ["C08"], "trailing commas make tokens differ: perpetual update of multi-line values")
m("no-concat-normalize", "_utils.py", "    return skip_complex_parens(skip_trailing_comma(normalize_strings(token_sequence)))", "    return skip_complex_parens(skip_trailing_comma(token_sequence))", ["C08"], "implicit string concatenation not merged")
m("complex-parens-again", "_utils.py", "        result = result[1:-1]", "        pass", [], "revert of the complex parentheses fix")
m("trim-keeps-one", "_snapshot/collection_value.py", "            if old_value not in self._new_value:", "            if old_value not in self._new_value and old_value != self._old_value[0]:", ["C05"], "trim never removes the first member... second run still wants to trim? (no: stays) -> C05")
m("minmax-trim-halfway", "_snapshot/min_max_value.py", "        new_token = value_to_token(self._new_value)\n        if not cmp(self._old_value, self._new_value):", "        if cmp(self._old_value, self._new_value) and self._old_value != self._new_value and type(self._old_value) is int and type(self._new_value) is int:\n            self._new_value = (self._old_value + self._new_value) // 2 if abs(self._old_value - self._new_value) > 1 else self._new_value\n        new_token = value_to_token(self._new_value)\n        if not cmp(self._old_value, self._new_value):", ["C08", "C05"], "trim of an int bound moves only halfway: a second run trims again")


# ---- C09
m("seq-update-drops-insert-when-deleting", "_change.py", '    if new_code or deleted or elements == 1 or len(parent_elements) <= 1:\n        code = ", ".join(new_code)', '    if new_code or deleted or elements == 1 or len(parent_elements) <= 1:\n        code = ", ".join([] if deleted and len(parent_elements) > 2 else new_code)', ["C09", "C05"], "an append is lost when the last element is deleted in the same edit (only when categories are applied together)")
m("virtual-dict-trim-then-create", "_snapshot/dict_value.py", "                len(self._old_value),\n                new_code,", "                len(self._new_value),\n                new_code,", ["C09", "C05"], "DictInsert position computed from the new value (differs once keys were trimmed)")
m("collection-fix-position", "_snapshot/collection_value.py", "                position=len(self._old_value),", "                position=len([v for v in self._old_value if v in self._new_value]),", ["C09", "C05"], "`in` append position ignores members that are only trimmed in another run")


# ---- C11
m("align-tiebreak", "_align.py", "            new_line.append(max(values))", "            new_line.append(min(values) if len(values) == 3 and a == 'b' else max(values))", ["C11"], "alignment loses matches for some elements")
m("prefix-off-by-one", "_align.py", '    return "m" * start + diff + "m" * end', '    return "m" * start + diff + "m" * end if start < 2 else "m" * (start - 1) + "di" + diff + "m" * end', ["C11"], "last element of the equal prefix is treated as replaced")
m("no-compare-context", "_adapter/sequence_adapter.py", "        with compare_context():\n            diff = add_x(align(old_value, new_value))", "        diff = add_x(align(old_value, new_value))", ["C10"], "nested snapshots are committed while aligning")
m("equal-leaf-rewritten", "_adapter/value_adapter.py", '            flag = "update"', '            flag = "fix" if isinstance(old_value, int) else "update"', ["C11", "C05"], "equal int leaves with non-canonical text are rewritten under fix")
m("dict-rewrite-whole", "_adapter/dict_adapter.py", "            if not (\n                isinstance(old_node, ast.Dict) and len(old_value) == len(old_node.keys)\n            ):", "            if not (\n                isinstance(old_node, ast.Dict) and len(old_value) == len(old_node.keys) and len(old_value) < 3\n            ):", ["C11"], "dicts with 3+ entries are replaced as a whole")
m("suffix-strip-off", "_align.py", "        if a == b:\n            end += 1\n        else:\n            break", "        break", [], "no suffix stripping: equivalent (informational)")


# ---- C10
m("unmanaged-early-return-off", "_adapter/value_adapter.py", "        if isinstance(old_value, Unmanaged):\n            return old_value", "        if isinstance(old_value, Unmanaged) and old_value == new_value:\n            return old_value", ["C10"], "an inconsistent Is()/dirty value is overwritten by fix")
m("fstring-branch-off", "_adapter/value_adapter.py", "        if isinstance(old_node, ast.JoinedStr) and isinstance(new_value, str):", "        if isinstance(old_node, ast.JoinedStr) and isinstance(new_value, str) and old_value == new_value:", ["C10"], "a failing f-string is replaced by a literal")
m("star-first-only", "_adapter/sequence_adapter.py", "            for e in old_node.elts:\n                if isinstance(e, ast.Starred):", "            for e in old_node.elts[:1]:\n                if isinstance(e, ast.Starred):", ["C10"], "only a leading star-expression freezes the list")
m("map-unmanaged-no-callargs", "_adapter/generic_call_adapter.py", "            *[adapter_map(arg.value, map_function) for arg in new_args],\n            **{\n                k: adapter_map(kwarg.value, map_function)", "            *[adapter_map(arg.value, map_function) for arg in new_args],\n            **{\n                k: kwarg.value", ["C10"], "unmanaged values inside constructor keyword arguments are not wrapped")
m("dict-star-after-len", "_adapter/dict_adapter.py", "                    if key is None:", "                    if key is None and len(old_value) == len(old_node.keys):", ["C10"], "revert of the dict ** fix")
m("inner-default-compare", "_adapter/generic_call_adapter.py", "    if isinstance(value, Unmanaged) or is_unmanaged(value):", "    if False:", ["C10", "C07"], "revert of the default-comparison fix")
m("inner-aligned-compare-off", "_snapshot/eq_value.py", "        with compare_context():\n            # inner", "        if True:\n            # inner", ["C10"], "revert: inner snapshots compared positionally")


# ---- C14
m("key-without-lasti", "_inline_snapshot.py", "    key = id(frame.f_code), frame.f_lasti", "    key = id(frame.f_code), frame.f_lineno", ["C14"], "call sites in one frame on one line share state")
m("key-by-line", "_inline_snapshot.py", "    key = id(frame.f_code), frame.f_lasti", "    key = frame.f_code.co_filename.rsplit('/', 1)[-1][:3], frame.f_lineno, frame.f_lasti", ["C14"], "sites keyed by file-name prefix+line+offset: identical layout in two files collides")
m("reeval-no-recursion", "_snapshot/generic_value.py", "                for old_item, new_item in zip(old_items, new_items):\n                    re_eval(old_item.value, old_item.node, new_item.value)", "                pass", ["C14"], "changed nested leaves are not detected")
m("dict-reeval-dropped", "_snapshot/dict_value.py", "        super()._re_eval(value, context)\n", "        pass\n", ["C14"], "sub-snapshot arguments may change silently")
m("complex-compare-parens-revert", "_utils.py", "    return skip_complex_parens(skip_trailing_comma(normalize_strings(token_sequence)))", "    return skip_trailing_comma(normalize_strings(token_sequence))", ["C08"], "revert of the complex-parentheses token normalisation")
m("collection-shared-list", "_snapshot/collection_value.py", "            self._new_value = [clone(item)]", "            self._new_value = CollectionValue._shared = getattr(CollectionValue, '_shared', None) or [clone(item)]", ["C14", "C05"], "all `in` snapshots share one member list")


# ---- C17
m("no-clone-contains", "_snapshot/collection_value.py", "                self._new_value.append(clone(item))", "                self._new_value.append(item)", ["C17"], "`in` members recorded by reference")
m("no-clone-minmax", "_snapshot/min_max_value.py", "        elif not self.cmp(self._new_value, other):\n            self._new_value = clone(other)", "        elif not self.cmp(self._new_value, other):\n            self._new_value = other", ["C17"], "later extreme values recorded by reference")
m("no-clone-eq", "_snapshot/eq_value.py", "self._ast_node, clone(other)))", "self._ast_node, other))", ["C17"], "== value recorded by reference")
m("shallow-copy", "_snapshot/generic_value.py", "    new = copy.deepcopy(obj)", "    new = copy.copy(obj)", ["C17"], "shallow copy: nested mutation leaks")
m("no-selfcheck", "_snapshot/generic_value.py", "    if not obj == new:", "    if False:", ["C17"], "unequal copies are recorded silently")


# ---- C16
m("set-sort-off", "_code_repr.py", "    set_values = list(map(repr, set_values))\n    if not is_sorted:\n        set_values = sorted(set_values)", "    set_values = list(map(repr, set_values))", ["C16", "C08"], "sets are emitted in iteration order")
m("set-sort-by-hash", "_code_repr.py", "    if not is_sorted:\n        set_values = sorted(set_values)", "    if not is_sorted:\n        set_values = sorted(set_values, key=hash)", ["C16"], "non-orderable sets sorted by hash of their text")
m("partial-order-revert", "_code_repr.py", "        is_sorted = all(a < b or a == b for a, b in zip(set_values, set_values[1:]))", "        is_sorted = True", ["C16"], "revert of the partial-order fix")
m("noblack-different-tokens", "_format.py", "        return text\n\n    with warnings.catch_warnings():", "        return text.replace('frozenset()', 'frozenset([])')\n\n    with warnings.catch_warnings():", [], "without black a different expression is generated")
m("format-cmd-dedent", "_format.py", "        return formatted_text", '        return formatted_text.replace("True", "1")', ["C16"], "format-command path yields a different syntax tree (True -> 1)")


# ---- C03
m("range-swapped-last-token", "_change.py", "            (end_of(last_token), start_of(end_token)),\n            code,", "            (end_of(last_token), end_of(end_token)) if code == \",\" else (end_of(last_token), start_of(end_token)),\n            code,", ["C03", "C02"], "1-tuple edit swallows the closing bracket")
m("offset-bytes-not-chars", "_rewrite_code.py", "    def offset(self, line_numbers):\n        return line_numbers.line_to_offset(self.lineno, self.col_offset)", "    def offset(self, line_numbers):\n        o = line_numbers.line_to_offset(self.lineno, self.col_offset)\n        s = line_numbers.line_to_offset(self.lineno, 0)\n        return o + sum(len(ch.encode()) - 1 for ch in line_numbers._text[s:o] if ord(ch) > 0xFFFF)", ["C03"], "astral characters left of the call shift the edit position")
m("always-format-whole-file", "_rewrite_code.py", "        format_whole_file = enforce_formatting() or code == format_code(\n            code, self.filename\n        )", "        format_whole_file = True", ["C03", "C20"], "whole-file black without the clean check")
m("crlf-revert", "_rewrite_code.py", '        if isinstance(newlines, str) and newlines != "\\n":', "        if False:", ["C03"], "revert of the newline fix")
m("replace-range-too-wide", "_change.py", "        range = self.file.asttokens().get_text_positions(self.node, False)", "        range = self.file.asttokens().get_text_positions(self.node, True)", [], "padded positions (equivalent for expression nodes; informational)")
m("strip-bom", "_rewrite_code.py", "        with open(self.filename, \"bw\") as code:\n            code.write(new_code.encode())", "        with open(self.filename, \"bw\") as code:\n            code.write(new_code.lstrip(chr(0xfeff)).encode())", ["C03"], "BOM dropped on rewrite")


# ---- C20
m("no-final-format", "_rewrite_code.py", "        if format_whole_file:\n            new_code = format_code(new_code, self.filename)", "        if format_whole_file and enforce_formatting():\n            new_code = format_code(new_code, self.filename)", ["C20"], "clean files are not re-formatted after the edit")
m("clean-check-inverted", "_rewrite_code.py", "        format_whole_file = enforce_formatting() or code == format_code(", "        format_whole_file = enforce_formatting() or code != format_code(", ["C20", "C03"], "clean check inverted")
m("ignore-line-length", "_format.py", '        if "line_length" in config:\n            mode.line_length = int(config["line_length"])', '        pass', ["C20"], "line-length from pyproject ignored")
m("ignore-magic-comma", "_format.py", '            mode.magic_trailing_comma = not config["skip_magic_trailing_comma"]', '            pass', ["C20"], "skip-magic-trailing-comma ignored")
m("ignore-preview", "_format.py", '            mode.preview = config["preview"]', '            pass', ["C20"], "preview ignored")
m("string-normalization-same-sign", "_format.py", '            mode.string_normalization = not config["skip_string_normalization"]', '            mode.string_normalization = config["skip_string_normalization"]', ["C20"], "skip-string-normalization not inverted")


# ---- C18
m("changes-only-on-create", "_snapshot/eq_value.py", '        return iter(getattr(self, "_changes", []))', "        return iter(self._changes)", ["C18"], "revert: AttributeError for inner snapshots only aligned")
m("inner-overlap-revert", "_rewrite_code.py", "        if any(inside(new, other) for other in source.replacements):\n            return\n", "", ["C18"], "revert: inner change inside replaced parent overlaps", more=[("_rewrite_code.py", "        source.replacements = [\n            other for other in source.replacements if not inside(other, new)\n        ]\n", "")])
m("minmax-cmp-raises-revert", "_snapshot/min_max_value.py", "            except Exception:\n                # values which can not be compared", "            except ZeroDivisionError:\n                # values which can not be compared", ["C18"], "revert: raising comparison re-executed at session end")
m("undefined-new-value-revert", "_snapshot/collection_value.py", "        if self._new_value is undefined:\n            # no value could be recorded (UsageError in clone)\n            return\n", "", ["C18", "C17"], "revert: Collection _get_changes with undefined new value")
m("check-assert-removed", "_rewrite_code.py", "            assert lhs.range.end <= rhs.range.start, (lhs, rhs)", "            pass", ["C18"], "overlap assertion removed while inner/outer overlap is produced", more=[("_rewrite_code.py", "        if any(inside(new, other) for other in source.replacements):\n            return\n", ""), ("_rewrite_code.py", "        source.replacements = [\n            other for other in source.replacements if not inside(other, new)\n        ]\n", "")])
m("delete-without-parent-group", "_change.py", "            if isinstance(node, ast.keyword):\n                node = node.parent", "            pass", ["C18"], "Delete of a keyword argument is grouped under the keyword node")


# ---- C07
m("missing-not-counted-eq", "_snapshot/eq_value.py", "        if self._old_value is undefined:\n            state().missing_values += 1\n", "", [], "empty == snapshots are not counted as missing")
m("missing-not-counted-dict", "_snapshot/dict_value.py", "                state().missing_values += 1\n", "", [], "empty sub-snapshots are not counted as missing")
m("counters-reset-late", "pytest_plugin.py", "    missing_values = state().missing_values\n    incorrect_values = state().incorrect_values", "    missing_values = state().missing_values\n    incorrect_values = state().incorrect_values if missing_values else 0", ["C07"], "incorrect values only fail the test together with missing ones")
m("fail-only-both", "pytest_plugin.py", "    if incorrect_values != 0:", "    if incorrect_values > 1:", ["C07"], "a single incorrect comparison does not fail the test")
m("f4-revert-collection", "_snapshot/collection_value.py", "        if self._old_value is undefined:\n            return True\n        else:", "        if self._old_value is undefined or state().update_flags.fix:\n            return True\n        else:", ["C07"], "revert: failing `in` under fix is green")
m("xfail-inverted", "pytest_plugin.py", "    if xfail.args and xfail.args[0] == False:\n        return False", "    if xfail.args and xfail.args[0] == False:\n        return True", ["C04"], "xfail(False) tests run deactivated")


# ---- C04
m("report-applies", "pytest_plugin.py", '                console().print("These changes are not applied.")', '                return True\n                console().print("These changes are not applied.")', ["C04"], "apply_changes returns True under report")
m("flags-and-categories", "pytest_plugin.py", "        state().update_flags = Flags(flags & categories)", "        state().update_flags = Flags(categories if flags & categories else set())", [], "any category flag enables all update flags (comparison results only; informational)")
m("short-report-falls-through", "pytest_plugin.py", '            if "short-report" in state().flags:\n', '            if "short-report" in state().flags and not state().flags & categories:\n', ["C04"], "short-report combined with categories applies them")
m("env-beats-cli", "pytest_plugin.py", "    if config.option.inline_snapshot is None:\n        flags = set(default_flags)", "    if config.option.inline_snapshot is None or env_var in os.environ:\n        flags = set(default_flags)", ["C04"], "INLINE_SNAPSHOT_DEFAULT_FLAGS overrides the command line")
m("xfail-active", "pytest_plugin.py", "            local_state.active = False", "            local_state.active = True", [], "xfail tests run with an active private state (changes are still dropped with the state; informational)")
m("xfail-not-isolated", "pytest_plugin.py", "    if is_xfail(request):", "    if False and is_xfail(request):", ["C04"], "snapshots in xfail tests are rewritten")
m("review-ignores-answer", "pytest_plugin.py", "                console().print()\n                return result", "                console().print()\n                return result or flag == 'fix'", ["C04"], "fix is applied in review mode even when answered n")
m("ci-pycharm-ignored", "pytest_plugin.py", '    if bool(os.environ.get("PYCHARM_HOSTED", False)):', '    if False:', ["C04"], "PYCHARM_HOSTED no longer overrides the CI detection (nothing applied: only 'approved not applied')")
m("ci-var-dropped", "pytest_plugin.py", '        "JENKINS_URL",\n', "", ["C04"], "JENKINS_URL is not detected as CI")
m("tui-uses-default-flags", "pytest_plugin.py", "        default_flags = _config.config.default_flags_tui", "        default_flags = _config.config.default_flags", ["C04"], "default-flags-tui ignored on a terminal")
m("worker-active-revert", "pytest_plugin.py", '    ) or hasattr(config, "workerinput")  # inside of a xdist worker process', "    )", ["C04"], "revert of the xdist worker fix")
m("review-trim-revert", "pytest_plugin.py", '            trim_approved = "trim" in state().flags or "trim" in approved_categories', "            trim_approved = state().update_flags.trim", ["C04", "C13"], "revert of the review/unused externals fix")
m("persist-unreferenced", "pytest_plugin.py", "                    for external_name in used:\n                        state().storage.persist(external_name)", "                    for external_name in used:\n                        state().storage.persist(external_name)\n            for f in list(state().storage.directory.glob('*-new.*')) if state().storage.directory.exists() else []:\n                state().storage.persist(f.name.replace('-new', ''))", ["C04", "C13"], "every outsourced file is persisted at session end, referenced or not")


# ---- C13
m("no-prune", "pytest_plugin.py", "    state().storage.prune_new_files()", "    pass", ["C13"], "-new files are never pruned at session start")
m("trim-ignores-participation", "_find_external.py", "    for filename in state().files_with_snapshots:\n        result |= used_externals_in(pathlib.Path(filename).read_text(\"utf-8\"))", "    for filename in list(state().files_with_snapshots)[:1]:\n        result |= used_externals_in(pathlib.Path(filename).read_text(\"utf-8\"))", ["C13", "C04"], "only the first participating file protects its externals from trim")
m("lookup-first-on-collision", "_external.py", '        if len(files) > 1:\n            raise HashError(f"hash collision files={sorted(f.name for f in  files)}")', "        pass", ["C13"], "ambiguous prefix resolves to the first match")
m("lookup-missing-none", "_external.py", '        if not files:\n            raise HashError(f"hash {name!r} is not found in the DiscStorage")', '        if not files:\n            files = sorted(self.directory.iterdir())', ["C13"], "missing hash resolves to some other file")
m("save-wrong-name", "_external.py", '        path = hash + "-new" + suffix', '        path = hash[:-1] + "0" + "-new" + suffix', ["C13"], "stored name is not the content hash")
m("persist-fullhash-revert", "_external.py", '        if "*" not in name:', "        if False:", ["C13"], "revert of the full-hash persist fix")
m("persist-before-reference-check", "pytest_plugin.py", "                    for external_name in used:\n                        state().storage.persist(external_name)", "                    pass\n            for f in (list(state().storage.directory.glob('*-new.*')) if state().storage.directory.exists() else []):\n                f.rename(f.with_name(f.name.replace('-new', '')))", ["C13"], "everything outsourced is persisted when any change is applied")
m("outsource-overwrites-persisted", "_external.py", "    if not storage.lookup_all(name):", "    if True:", [], "data is saved as -new although already persisted (harmless duplicate, pruned later; informational)")


# ---- C19
m("run-inline-applies-all", "testing/_example.py", "                        if change.flag in state.update_flags.to_set()", "                        if True", ["C19"], "run_inline applies every change regardless of the flags")
m("run-inline-keeps-active", "testing/_example.py", "                finally:\n                    state.active = False", "                finally:\n                    pass", [], "run_inline leaves the state active while collecting (informational)")
m("run-inline-no-imports", "testing/_example.py", "                    if used_hasrepr(tree):\n                        required_imports.append(\"HasRepr\")", "                    pass", ["C19"], "revert of the run_inline import fix")
m("black-config-cwd", "_format.py", "    pyproject_path = find_pyproject_toml((str(path),))", "    pyproject_path = find_pyproject_toml((), path)", ["C19"], "revert of the black configuration lookup fix")
m("run-inline-different-categories", "testing/_example.py", "                snapshot_flags = {change.flag for change in changes}", "                snapshot_flags = {change.flag for change in changes if change.flag != 'update'}", ["C19"], "run_inline does not report update")
m("run-pytest-keeps-ci", "testing/_example.py", '            command_env.pop("CI", None)', '            command_env["CI"] = "1"', ["C19"], "run_pytest runs with CI set: nothing is applied")
m("report-overlap-revert", "pytest_plugin.py", "                cr.clear_replacements()\n                apply_all(used_changes + changes[flag], cr)", "                apply_all(changes[flag], cr)", ["C19", "C04"], "revert of the cumulative report fix")


# ---- C15
m("persist-after-fix-all", "pytest_plugin.py", "                    for external_name in used:\n                        state().storage.persist(external_name)\n\n                cr.fix_all()", "                    cr.__dict__.setdefault('_tp', []).extend(used)\n\n                cr.fix_all()\n                for external_name in cr.__dict__.get('_tp', []):\n                    state().storage.persist(external_name)", ["C15"], "externals are persisted after the files were rewritten")
m("black-exception-not-caught", "_format.py", "        try:\n            return format_str(text, mode=mode)\n        except:", "        try:\n            return format_str(text, mode=mode)\n        except KeyError:", ["C15"], "a crash of black is not turned into a reported problem")
m("state-not-popped", "pytest_plugin.py", "        return\n    finally:\n        leave_snapshot_context()", "        leave_snapshot_context()\n        return\n    finally:\n        pass", ["C15"], "the session state is only popped when session end succeeds")
m("format-output-unchecked", "_format.py", "        if not is_valid_result(text, formatted_text):", "        if False:", ["C15"], "revert of the format-command output validation")
m("nonzero-exit-ignored", "_format.py", "        if result.returncode != 0:", "        if result.returncode not in (0, 3):", [], "format-command exit status 3 is treated as success (the output validation still catches it; informational)")
m("write-in-two-steps", "_rewrite_code.py", '            code.write(new_code.encode())', '            data = new_code.encode()\n            code.write(data[: len(data) // 2])\n            code.flush()\n            self._check()\n            code.write(data[len(data) // 2 :])', ["C15"], "the content is written in two steps with a call in between (fault there leaves half a file)")


# ---- reverts of further fix commits
m("import-before-docstring-revert", "_find_external.py", "            index == 0\n            and isinstance(node, ast.Expr)", "            False\n            and isinstance(node, ast.Expr)", ["C03"], "revert: import inserted above the module docstring")
m("import-inside-continued-import", "_find_external.py", "            if last_token.end[0] == next_token.end[0]:", "            if False:", ["C03"], "import inserted right after the last import token, before trailing tokens on the same line")
m("kwarg-insert-pos-revert", "_adapter/generic_call_adapter.py", "        to_insert = []\n        for key, new_value_element in new_kwargs.items():", "        to_insert = []\n        insert_pos = 0\n        for key, new_value_element in new_kwargs.items():", ["C09"], "revert: new keyword arguments positioned by count of matched arguments", more=[("_adapter/generic_call_adapter.py", "                            arg_pos=old_kwargs_pos[key],", "                            arg_pos=insert_pos,"), ("_adapter/generic_call_adapter.py", "                    to_insert = []\n\n        if to_insert:", "                    to_insert = []\n\n                insert_pos += 1\n\n        if to_insert:"), ("_adapter/generic_call_adapter.py", "                    arg_pos=None,\n                    arg_name=key,", "                    arg_pos=insert_pos,\n                    arg_name=key,")])
m("flag-empty-revert", "_code_repr.py", "    if not members:", "    if False:", ["C01"], "revert: Flag without members")
m("lone-string-docstring-revert", "_source_file.py", "        if len(tokens) == 1 and tokens[0].type == token.STRING:", "        if False:", ["C01", "C12"], "revert: lone string formatted as docstring")
m("paren-elements-revert", "_change.py", '            prev_token.string == "("\n            and next_token.string == ")"\n            and prev_token.index > left_brace.index', '            False and prev_token.string == "("\n            and next_token.string == ")"\n            and prev_token.index > left_brace.index', ["C02"], "revert: parenthesized elements")
m("positional-args-revert", "_adapter/generic_call_adapter.py", "        if isinstance(pos_or_name, str):\n            return getattr(value, pos_or_name)\n        else:\n            return value[pos_or_name]", "        assert isinstance(pos_or_name, str)\n        return getattr(value, pos_or_name)", ["C02"], "revert: positional namedtuple arguments")
m("complex-negzero-revert", "_code_repr.py", "    if real_repr(eval(result)) != result:", "    if False:", ["C08"], "revert: negative-zero complex numbers")
m("number-token-value-revert", "_utils.py", "        elif self.type == other.type == token.NUMBER:", "        elif False:", ["C08"], "revert: number tokens compared by value")
m("normalize-new-tokens-revert", "_source_file.py", "        return self._token_of_node(node) != list(normalize(new_tokens))", "        return self._token_of_node(node) != new_tokens", ["C08"], "revert: generated tokens normalised before comparison")
m("reeval-structure-revert", "_snapshot/generic_value.py", "            if isinstance(old_value, dict) and list(old_value) != list(value):", "            if False:", ["C14"], "revert: changed dict keys are accepted silently")
m("crlf-fix-lone-cr", "_rewrite_code.py", '        if isinstance(newlines, str) and newlines != "\\n":', '        if newlines == "\\r\\n":', ["C03"], "only CRLF is preserved, lone CR files become LF")
m("minmax-count-revert", "_snapshot/min_max_value.py", "        if ignore_old_value() or state().update_flags.create:", "        if ignore_old_value() or state().update_flags.create:\n            return True\n        if False:", ["C07"], "revert: failing bounds under fix/update are green")
m("persist-star-revert2", "_external.py", '            name = f"{stem}*{dot}{suffix}"', '            name = f"{stem}{dot}{suffix}"', ["C13"], "revert variant: full-hash names not globbed")
m("relative-to-cwd-revert", "pytest_plugin.py", "                        try:\n                            name = file.filename.relative_to(Path.cwd())\n                        except ValueError:\n                            # pytest was started outside of the directory of the test file\n                            name = file.filename\n", "                        name = file.filename.relative_to(Path.cwd())\n", ["C18", "C04"], "revert: session started in another directory crashes at session end")
m("undecided-update-whole-arg-revert", "_snapshot/undecided_value.py", "                        node=node,\n", "                        node=self._ast_node,\n", ["C05", "C10", "C18"], "revert: a never-compared snapshot is replaced as a whole by the code of one element")
m("undecided-update-fstring-revert", "_snapshot/undecided_value.py", "                and not isinstance(node, ast.JoinedStr)\n", "", ["C10"], "revert: f-strings inside never-compared snapshots are replaced by update")
m("executed-test-file-counts-revert", "pytest_plugin.py", "        state().files_with_snapshots.add(str(test_file))\n", "        pass\n", ["C13"], "revert: a test failing before its snapshot loses its external under trim")
m("compare-context-finally-revert", "_compare_context.py", "    try:\n        yield\n    finally:\n        # the comparison of the elements can raise an exception\n        _eq_check_only = old_eq_only\n", "    yield\n    _eq_check_only = old_eq_only\n", ["C02"], "revert: a raising comparison during alignment leaves compare-only mode on")
m("format-command-output-escape-revert", "_format.py", "                + escape(result.stdout.decode(\"utf-8\"))\n                + escape(result.stderr.decode(\"utf-8\"))\n", "                + result.stdout.decode(\"utf-8\")\n                + result.stderr.decode(\"utf-8\")\n", ["C15"], "revert: formatter error output interpreted as rich markup")
m("empty-format-command-revert", "_config.py", 'tool_config.get("format-command", None) or None', 'tool_config.get("format-command", None)', ["C20"], "revert: format-command=\"\" is executed as a command")
m("repr-is-expression-revert", "_code_repr.py", "    if not is_expression(result):\n        return real_repr(HasRepr(type(obj), result))\n", "    try:\n        ast.parse(result)\n    except SyntaxError:\n        return real_repr(HasRepr(type(obj), result))\n", ["C01", "C18"], "revert: reprs that parse as code + comment / statements are written verbatim")
m("dataclass-init-false-revert", "_adapter/generic_call_adapter.py", "            if field.repr and field.init:\n                field_value = getattr(value, field.name)\n                is_default = False\n\n                if field.default != MISSING", "            if field.repr:\n                field_value = getattr(value, field.name)\n                is_default = False\n\n                if field.default != MISSING", ["C01", "C02"], "revert: dataclass init=False fields written as constructor arguments")
m("attrs-alias-revert", "_adapter/generic_call_adapter.py", "                    kwargs[cls.argument_name(field)] = Argument(", "                    kwargs[field.name] = Argument(", ["C01", "C02"], "revert: private attrs attributes written as _name=")
m("in-unmanaged-update-revert", "_snapshot/collection_value.py", "            if isinstance(old_value, Unmanaged) or isinstance(old_node, ast.JoinedStr):\n                # Is(...) and f-strings are not managed by inline-snapshot\n                continue\n", "", ["C10"], "revert: Is()/f-string members of `in` snapshots are replaced by update")
m("pos-arg-node-bound-revert", "_adapter/generic_call_adapter.py", "                return node.args[pos] if pos < len(node.args) else None\n", "                return node.args[pos]\n", ["C18", "C05"], "revert: defaultdict(list) evaluated again / never compared raises IndexError")
m("inserted-pos-arg-in-new-value-revert", "_adapter/generic_call_adapter.py", "                # the new argument is part of the new value\n                result_args.append(value.value)\n", "", ["C02"], "revert: comparison under fix is False when positional arguments are inserted")
m("unchanged-pos-arg-update-revert", "_adapter/generic_call_adapter.py", 'flag="update" if unchanged else "fix",', 'flag="fix",', ["C05"], "revert: defaultdict(list) -> defaultdict(list, {}) reported as fix")
m("used-externals-alias-revert", "_find_external.py", "            and node.func.id in names\n", "            and node.func.id == \"external\"\n", ["C13"], "revert: references through an aliased import are not found, trim removes their files")
m("interrupted-session-trim-revert", "pytest_plugin.py", "            if unused_externals and trim_approved and not interrupted:", "            if unused_externals and trim_approved:", ["C13"], "revert: an import error in a test file + trim removes the externals it references")
m("run-inline-external-import-only", "testing/_example.py", '                    if used_hasrepr(tree):\n                        required_imports.append("HasRepr")', '                    if used_hasrepr(tree) and used_externals(tree):\n                        required_imports.append("HasRepr")', ["C19"], "HasRepr import only added together with external")


def make_copy(mut):
    base = os.environ.get("VERIF_TMP") or ("/dev/shm" if os.path.isdir("/dev/shm") else tempfile.gettempdir())
    d = Path(tempfile.mkdtemp(prefix="mutant-", dir=base))
    shutil.copytree("/repo/src", d / "src", ignore=shutil.ignore_patterns("__pycache__"))
    for file, old, new in mut["edits"]:
        p = d / "src" / "inline_snapshot" / file
        s = p.read_text()
        if old not in s:
            shutil.rmtree(d)
            raise LookupError(f"mutant {mut['id']}: old text not found in {file}")
        p.write_text(s.replace(old, new, 1))
    return d


def run(mut, props, tier, baseline, seed):
    d = make_copy(mut)
    results = {}
    try:
        env = dict(os.environ, VERIF_SRC=str(d / "src"), VERIF_EVIDENCE_DIR=str(d / "evidence"), VERIF_SEED=str(seed))
        if baseline:
            cmd = "cd /repo && /venv/bin/python -m pytest -q -x -p no:cacheprovider --timeout=900 -q 2>&1 | tail -3"
            p = subprocess.run(cmd, shell=True, env=dict(os.environ, PYTHONPATH=str(d / "src")), capture_output=True, text=True)
            results["baseline"] = p.stdout.strip().splitlines()[-1:]
        for prop in props:
            p = subprocess.run(["/venv/bin/python", str(VERIF / "check.py"), prop, "--tier", tier], env=env, capture_output=True, text=True, cwd=str(VERIF))
            last = [l for l in p.stdout.splitlines() if l.startswith(prop)][-1:] or [p.stdout[-300:] + p.stderr[-300:]]
            kinds = sorted({l.strip()[:80] for l in p.stdout.splitlines() if l.strip().startswith("kind=")})[:3]
            results[prop] = (p.returncode, last[0][:160], kinds)
    finally:
        shutil.rmtree(d, ignore_errors=True)
        # replays written for mutants are not witnesses against /repo
    return results


def main():
    ap = argparse.ArgumentParser()
    ap.add_argument("cmd", choices=["list", "run"])
    ap.add_argument("which", nargs="?", default="all")
    ap.add_argument("--props")
    ap.add_argument("--tier", default="quick")
    ap.add_argument("--baseline", action="store_true")
    ap.add_argument("--seed", type=int, default=0)
    a = ap.parse_args()
    sys.path.insert(0, str(VERIF / "tools"))
    try:
        import mutants_more  # noqa: F401  (further catalogue entries)
    except ImportError:
        pass
    if a.cmd == "list":
        for x in M:
            print(f"{x['id']:28s} {x['file']:36s} {','.join(x['props']):14s} {x['note']}")
        return
    sel = [x for x in M if a.which == "all" or x["id"] in a.which.split(",")]
    if a.props and a.which == "all":
        sel = [x for x in sel if set(a.props.split(",")) & set(x["props"])]
    missed = 0
    for x in sel:
        props = a.props.split(",") if a.props else x["props"]
        if not props and not a.baseline:
            print(f"{x['id']:28s} (informational, no expectation)")
            continue
        try:
            r = run(x, props, a.tier, a.baseline, a.seed)
        except LookupError as e:
            print(f"STALE {e}")
            missed += 1
            continue
        for k, v in r.items():
            flag = ""
            if k != "baseline" and k in x["props"] and v[0] != 1:
                flag = "   <<<<<< MISSED"
                missed += 1
            print(f"{x['id']:28s} {k:9s} {v}{flag}")
    print(f"missed={missed}")


if __name__ == "__main__":
    main()
