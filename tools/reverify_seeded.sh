#!/bin/bash
# full re-confirmation (patch applies, baseline suite, demo, checks) of every seeded change against the current tree;
# two at a time (the baseline suite is single-process, the checks use all cores)
cd /verif
one() {
  id=$1; props=$2
  python3 tools/seeded.py verify /verif/seeded/$id $id --props $props > /dev/shm/reverify-$id.log 2>&1
  python3 - "$id" <<'PY'
import json,sys
m=json.load(open(f"/verif/seeded/{sys.argv[1]}/meta.json"))["confirmation"]
print(sys.argv[1], "applies", m.get("patch_applies"), "demo", m.get("demo_discriminates"), "baseline_missing", m.get("baseline_missing_with_patch"), {k:v["exit"] for k,v in m.get("checks_against_patched_copy",{}).items()})
PY
}
export -f one
xargs -P 2 -L 1 bash -c 'one $0 $1' <<'LIST'
C01-clone-skips-shallow-immutables C17,C01
C01-key-by-code-object-equality C14,C01
C01-nested-import-counts-as-present C01,C03
C01-pydantic-factory-field-skipped-when-unset C01
C02-align-suffix-overlaps-prefix C02,C11
C02-bound-fix-only-when-new-includes-old C02,C05
C02-interrupted-session-skips-session-end C02
C02-replace-range-from-ast-columns C02,C03
C02-same-adapter-other-class C02
C03-import-requirements-leak-across-files C03
C03-line-table-from-str-splitlines C03
C03-replace-range-from-ast-byte-columns C03,C02
C03-rewrite-in-locale-encoding C03
C03-whitespace-only-formatter-output-accepted C15,C03
C04-bound-trim-tested-before-fix C04,C05
C04-non-list-in-collection-replaced-as-fix C05,C04
C04-pyproject-from-invocation-dir C04
C04-report-diff-ignores-trailing-whitespace C02,C04
C04-review-unasked-trim-removes-externals C04,C13
C05-accessed-uncompared-key-trimmed C05
C05-bound-trim-decided-before-fix C05,C04
C05-clone-immutable-fast-path-tuples C17,C05
C05-in-members-keyed-by-hash C05,C01
C05-key-by-code-object-equality C14,C05
C06-bound-compared-with-recorded-extreme C06
C06-catch-warnings-around-repr-probe C06
C06-key-by-filename-name-offset C06,C14
C06-xfail-reactivates-disabled-session C06
C07-eq-result-cached-per-snapshot-object C07,C06
C07-failed-comparison-counted-only-for-False-singleton C07
C07-skip-after-bad-snapshot-hides-failure C07
C07-testing-helper-compares-in-nested-state C07
C08-empty-sequence-fast-path-drops-tuple-comma C08,C02
C08-evaluated-externals-protected-from-trim C08
C08-generated-code-cached-by-equal-value C08
C08-hasrepr-eq-uses-plain-repr C08,C01
C08-in-trim-by-tokens-fix-by-equality C08,C05
C09-in-list-update-swallows-fix-trim C09,C05
C09-last-file-decides-category-applied C09,C04
C09-nested-edit-containment-inverted C09
C09-testing-helper-category-check-in-nested-state C07,C09
C10-dict-value-node-by-observed-order C10,C11,C02
C10-frames-released-after-each-test C10
C10-star-kwargs-check-after-changes C10
C10-undecided-re-eval-keeps-first-unmanaged-values C10
C10-undecided-update-guard-always-true C10
C11-call-arguments-always-value-adapter C11,C10
C11-dict-same-keys-positional-nodes C11,C10,C02
C11-final-write-reuses-report-recorder C11,C04
C11-paren-range-from-raw-token-list C11,C02
C12-docstring-workaround-narrowed C12,C01
C12-inserted-multiline-elements-reindented C12,C02
C12-rewrite-without-explicit-encoding C12,C03
C12-unescape-via-unicode-escape C12,C01
C13-multi-part-suffix-never-persisted C13
C13-outsource-existence-check-ignores-suffix C13
C13-prune-new-files-only-when-active C13
C13-snapshot-no-longer-registers-its-file C13
C13-unused-externals-bucketed-by-hash-length C13
C14-clone-shortcut-for-immutable-types C17,C14
C14-empty-bound-keeps-last-value C14,C05
C14-key-by-filename-name-offset C14
C14-re-eval-zip-truncates-length-change C14
C15-failed-format-command-output-used C15
C15-new-files-pruned-after-collection C13,C15
C15-persist-after-write C15
C15-rewrite-in-locale-encoding-truncates C15,C03
C15-storage-lookup-by-unescaped-glob C13,C15
C16-docstring-workaround-only-for-blanks C16,C12
C16-import-order-from-set-iteration C16
C16-repr-patch-flag-stuck-after-exception C16
C16-tidy-code-without-black C16
C17-bound-replacement-stores-live-object C17
C17-clone-only-when-flags-active C17
C17-hashable-tuples-not-copied C17
C17-in-check-skipped-for-identical-object C17
C18-atomic-write-via-default-tempdir C18
C18-bound-recheck-catches-only-typeerror C18
C18-collected-modules-registered-before-import C18
C18-file-of-snapshot-from-co-filename C18
C18-remove-while-iterating-inner-replacements C18
C19-black-result-cached-by-text-only C19
C19-plugin-skips-category-without-new-changeset C19,C04
C19-repeated-option-merged-by-plugin-only C19
C19-rewrite-keeps-mtime C08,C19
C19-run-inline-only-test-prefix-files C19
C20-black-mode-pins-target-version C20
C20-nearest-pyproject-without-black-section C20
C20-removals-skip-formatting C20
C01-in-snapshot-hash-dedupe C01,C05
C03-import-inserted-after-first-line-of-last-import C03
C04-xfail-only-own-markers C04
C06-contains-already-recorded-shortcut C06
C07-missing-counted-once-when-recorded C07
C08-complex-paren-normalisation-only-for-positive-imaginary C08
C09-collection-insert-position-counts-used-values C09,C05
C10-sequence-items-maps-nodes-by-length C10
C11-align-size-guard-before-suffix-strip C11
C12-rstrip-lines-of-container-fragment C12,C01
C13-lookup-prefers-persisted-over-pending-new C13
C15-persist-skips-complete-hash-names C13
C16-partial-order-sorted-check-by-inversion C16
C17-uncopyable-value-falls-back-to-live-object C17
C20-shared-default-black-mode-leaks-between-projects C20
C02-single-level-paren-expansion C02
C18-trim-check-reverse-compare-unguarded C18
C19-run-inline-dedupes-aliased-tests C19
LIST
# a seeded change that leaves stray temporary files behind (C18 round 3) writes them to the default temp dir
find /tmp -maxdepth 1 -type f -name 'tmp*.py' -delete 2>/dev/null
