#!/bin/bash
# full re-confirmation (patch applies, baseline suite, demo, checks) of every seeded change against the current tree
cd /verif
declare -A PROPS=( [C01-clone-skips-shallow-immutables]=C17,C01 [C02-same-adapter-other-class]=C02 [C03-replace-range-from-ast-byte-columns]=C03,C02 [C04-review-unasked-trim-removes-externals]=C04,C13 [C05-in-members-keyed-by-hash]=C05,C01 [C06-bound-compared-with-recorded-extreme]=C06 [C07-skip-after-bad-snapshot-hides-failure]=C07 [C08-in-trim-by-tokens-fix-by-equality]=C08,C05 [C09-in-list-update-swallows-fix-trim]=C09,C05 [C10-dict-value-node-by-observed-order]=C10,C11,C02 [C11-dict-same-keys-positional-nodes]=C11,C10,C02 [C12-docstring-workaround-narrowed]=C12,C01 [C13-unused-externals-bucketed-by-hash-length]=C13 [C14-key-by-filename-name-offset]=C14 [C15-persist-after-write]=C15 [C16-repr-patch-flag-stuck-after-exception]=C16 [C17-hashable-tuples-not-copied]=C17 [C18-remove-while-iterating-inner-replacements]=C18 [C19-plugin-skips-category-without-new-changeset]=C19,C04 [C20-nearest-pyproject-without-black-section]=C20 )
for id in "${!PROPS[@]}"; do
  python3 tools/seeded.py verify /verif/seeded/$id $id --props ${PROPS[$id]} > /dev/shm/reverify-$id.log 2>&1
  python3 - "$id" <<'PY'
import json,sys
m=json.load(open(f"/verif/seeded/{sys.argv[1]}/meta.json"))["confirmation"]
print(sys.argv[1], "applies", m.get("patch_applies"), "demo", m.get("demo_discriminates"), "baseline_missing", m.get("baseline_missing_with_patch"), {k:v["exit"] for k,v in m.get("checks_against_patched_copy",{}).items()})
PY
done
