#!/bin/bash
# run every check of a tier (default thorough) once; summary lines only
tier=${1:-thorough}; seed=${2:-0}
export VERIF_EVIDENCE_DIR=${VERIF_EVIDENCE_DIR:-/dev/shm/ev-$tier-$seed}
for n in 01 02 03 04 05 06 07 08 09 10 11 12 13 14 15 16 17 18 19 20; do
  start=$(date +%s)
  /venv/bin/python check.py C$n --tier $tier --seed $seed > /dev/shm/out-$tier-$seed-C$n.txt 2>&1
  rc=$?
  echo "C$n exit=$rc $(( $(date +%s) - start ))s :: $(grep -E "^C$n " /dev/shm/out-$tier-$seed-C$n.txt | tail -1)"
  grep -E "^(VIOLATION|INCONCLUSIVE|KNOWN)" /dev/shm/out-$tier-$seed-C$n.txt | cut -c1-300 | head -5
done
