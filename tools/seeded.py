#!/usr/bin/env python3
"""Confirm and file an independently written property-breaking change.

  tools/seeded.py verify <dir containing patch.diff, demo.py, meta.json> <id> --props C05[,C01]

Steps (all in a scratch copy of /repo/src under /dev/shm, /repo is never touched):
  1. patch applies to the current /repo HEAD sources and the package still imports;
  2. the repository's baseline suite (guard off) still passes every stable test with the patch;
  3. the demo fails with the patch and passes without it;
  4. the registered quick checks of --props are run against the patched copy (VERIF_SRC);
  5. everything is stored under /verif/seeded/<id>/ (patch.diff, demo, meta.json with what was run).
"""
import argparse
import json
import os
import shutil
import subprocess
import sys
import tempfile
import xml.etree.ElementTree as ET
from pathlib import Path

VERIF = Path(__file__).resolve().parent.parent


def sh(cmd, **kw):
    return subprocess.run(cmd, shell=isinstance(cmd, str), capture_output=True, text=True, **kw)


def baseline_with(src):
    base = json.load(open("/root/.vp/BASELINE.json"))
    fd, junit = tempfile.mkstemp(suffix=".xml")
    os.close(fd)
    env = {k: v for k, v in os.environ.items() if k != "INLINE_SNAPSHOT_VERIF"}
    env["PYTHONPATH"] = str(src)
    sh(base["cmd"].replace("<file>", junit), env=env)
    passed = set()
    for tc in ET.parse(junit).getroot().iter("testcase"):
        if not any(c.tag in ("failure", "error", "skipped") for c in tc):
            passed.add(f"{tc.get('classname')}::{tc.get('name')}")
    os.unlink(junit)
    missing = sorted(set(base["stable_pass"]) - passed)
    return len(base["stable_pass"]), missing


def main():
    ap = argparse.ArgumentParser()
    ap.add_argument("cmd", choices=["verify", "recheck"])
    ap.add_argument("src_dir")
    ap.add_argument("id")
    ap.add_argument("--props", required=True)
    ap.add_argument("--demo", default=None)
    ap.add_argument("--skip-baseline", action="store_true")
    ap.add_argument("--tier", default="quick")
    a = ap.parse_args()
    src_dir = Path(a.src_dir)
    patch = src_dir / "patch.diff"
    demo = Path(a.demo) if a.demo else next((src_dir / n for n in ("demo.py", "test_demo.py") if (src_dir / n).exists()), None)
    work = Path(tempfile.mkdtemp(prefix="seeded-", dir="/dev/shm"))
    report = {"id": a.id, "props": a.props.split(",")}
    try:
        shutil.copytree("/repo/src", work / "clean" / "src", ignore=shutil.ignore_patterns("__pycache__"))
        shutil.copytree("/repo/src", work / "patched" / "src", ignore=shutil.ignore_patterns("__pycache__"))
        r = sh(["patch", "-p1", "-d", str(work / "patched"), "-i", str(patch.resolve())])
        report["patch_applies"] = r.returncode == 0
        if r.returncode != 0:
            print("PATCH DOES NOT APPLY", r.stdout[-500:], r.stderr[-300:])
            return 1
        imp = sh(["/venv/bin/python", "-c", "import inline_snapshot, inline_snapshot.pytest_plugin, inline_snapshot.testing"], env={"PYTHONPATH": str(work / "patched" / "src"), "PATH": "/usr/bin:/bin"})
        report["imports"] = imp.returncode == 0
        if demo is not None:
            # the demos were written against /tmp/wt-*/...: run them with PYTHONPATH of each copy
            for which in ("clean", "patched"):
                env = dict(os.environ, PYTHONPATH=str(work / which / "src"))
                env.pop("INLINE_SNAPSHOT_VERIF", None)
                text = demo.read_text()
                # demos may hard-code their worktree's src path: redirect it
                import re

                text2 = re.sub(r"/tmp/w[t0-9]-[A-Za-z0-9_]+/src", str(work / which / "src"), text)
                dpath = work / f"demo_{which}.py"
                dpath.write_text(text2)
                d = sh(["/venv/bin/python", str(dpath)], env=env, cwd=str(work), timeout=900)
                report[f"demo_{which}_exit"] = d.returncode
                report[f"demo_{which}_tail"] = (d.stdout + d.stderr)[-400:]
            report["demo_discriminates"] = report["demo_clean_exit"] == 0 and report["demo_patched_exit"] != 0
        if not a.skip_baseline:
            n, missing = baseline_with(work / "patched" / "src")
            report["baseline_stable"] = n
            report["baseline_missing_with_patch"] = missing[:10]
        checks = {}
        for prop in report["props"]:
            env = dict(os.environ, VERIF_SRC=str(work / "patched" / "src"), VERIF_EVIDENCE_DIR=str(work / "evidence"))
            c = sh(["/venv/bin/python", str(VERIF / "check.py"), prop, "--tier", a.tier], env=env, cwd=str(VERIF))
            last = [l for l in c.stdout.splitlines() if l.startswith(prop)][-1:] or [c.stdout[-200:]]
            kinds = sorted({l.strip()[:120] for l in c.stdout.splitlines() if l.strip().startswith("kind=")})[:4]
            checks[prop] = {"exit": c.returncode, "summary": last[0], "violation_kinds": kinds}
            shutil.rmtree(VERIF / "replays" / prop, ignore_errors=True)
        report["checks_against_patched_copy"] = checks
        out = VERIF / "seeded" / a.id
        out.mkdir(parents=True, exist_ok=True)
        if patch.resolve() != (out / "patch.diff").resolve():
            shutil.copy(patch, out / "patch.diff")
        if demo is not None and demo.resolve() != (out / demo.name).resolve():
            shutil.copy(demo, out / demo.name)
        meta = {}
        if (src_dir / "meta.json").exists():
            try:
                meta = json.loads((src_dir / "meta.json").read_text())
            except ValueError:
                meta = {"raw": (src_dir / "meta.json").read_text()[:3000]}
        prev = meta.get("confirmation", {})
        for k in ("baseline_stable", "baseline_missing_with_patch"):
            if k not in report and prev.get(k) is not None:
                report[k] = prev[k]
        meta["confirmation"] = report
        (out / "meta.json").write_text(json.dumps(meta, indent=1, ensure_ascii=False) + "\n")
        print(json.dumps(report, indent=1)[:3000])
    finally:
        shutil.rmtree(work, ignore_errors=True)
    return 0


if __name__ == "__main__":
    sys.exit(main())
