#!/usr/bin/env python3
"""Compact view of the replays of a property: tools/show.py C02 [n] [--new]"""
import glob, json, sys
prop = sys.argv[1]
full = "--new" in sys.argv
only = [a for a in sys.argv[2:] if a.isdigit()]
for f in sorted(glob.glob(f"/verif/replays/{prop}/*.json")):
    if only and not any(f.endswith(f"-{n}.json") for n in only):
        continue
    v = json.load(open(f))
    det = v["detail"]
    print("=====", f, v["kind"], v.get("finding"))
    if isinstance(det, dict):
        for k in det:
            if k not in ("new", "files") or full:
                print("  ", k, str(det[k])[: 6000 if full else 500])
    else:
        print("  ", str(det)[:800])
